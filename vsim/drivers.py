"""Drivers A (whole run through the real SequentialRunner) and B (market-level schedule explorer:
a user-written Runner that reuses SequentialRunner._setup and replaces the run loop by an explicit,
seeded op list).  Both run the real pams code; see DESIGN.md 2.2.
"""
import copy
import math
import os
import json
import random
import sys
import traceback
from typing import Any, Dict, List, Optional

from . import env
from .harness import cloned, Ctx, make_classes
from .monitor import Monitor

import numpy as _np  # noqa: E402
from pams.order import LIMIT_ORDER, MARKET_ORDER, Cancel, Order  # noqa: E402
from pams.runners.sequential import SequentialRunner  # noqa: E402

TIMED_EVENT_CLASSES = ("FundamentalPriceShock", "OrderMistakeShock", "ProbeEvent")


class HarnessError(Exception):
    pass


def innermost_frames(tb):
    frames = traceback.extract_tb(tb)
    return [(f.filename, f.name, f.lineno) for f in frames]


def classify_exception(e: BaseException) -> Dict[str, Any]:
    frames = innermost_frames(e.__traceback__)
    inner = frames[-1] if frames else ("?", "?", 0)
    pams_frames = [f for f in frames if f[0].startswith(env.REPO)]
    where = pams_frames[-1] if pams_frames else None
    in_harness = inner[0].startswith(env.VERIF)
    return {
        "type": type(e).__name__,
        "msg": str(e)[:300],
        "inner": [inner[0].replace(env.REPO + "/", ""), inner[1], inner[2]],
        "pams_frame": None if where is None else [where[0].replace(env.REPO + "/", ""), where[1]],
        "pams_stack": [[f[0].replace(env.REPO + "/", ""), f[1]] for f in pams_frames][-8:],
        "in_harness": in_harness,
        "tb": "".join(traceback.format_exception(type(e), e, e.__traceback__, limit=-8))[-1500:],
    }


def compile_config(scn: Dict[str, Any], ctx: Ctx, mon: Monitor) -> Dict[str, Any]:
    """deep-copies the scenario's config and inserts taps between the configured events."""
    cfg = copy.deepcopy(scn["config"])
    if not scn.get("taps", True):
        return cfg
    try:
        sessions = cfg["simulation"]["sessions"]
        if not isinstance(sessions, list) or not all(isinstance(s, dict) for s in sessions):
            return cfg
    except Exception:
        return cfg
    timed = scn.get("tap_timed")
    if timed is None:
        timed = False
        for v in cfg.values():
            if isinstance(v, dict) and v.get("class") in TIMED_EVENT_CLASSES:
                timed = True
    ctx.tap_timed = bool(timed)
    k = 0
    slots = []

    def tap_names(i):
        names = [f"__tapN{i}"]
        cfg[names[0]] = {"class": "Tap", "tapIndex": i, "phase": "n"}
        if ctx.tap_timed:
            names.append(f"__tapT{i}")
            cfg[names[1]] = {"class": "Tap", "tapIndex": i, "phase": "t"}
        return names

    for si, s in enumerate(sessions):
        evs = s.get("events", [])
        if not isinstance(evs, list):
            continue
        if si > 0 and not evs:
            continue
        new = tap_names(k)
        for e in evs:
            k += 1
            slots.append({"name": e, "session": si, "before": k - 1, "after": k})
            new = new + [e] + tap_names(k)
        k += 1
        s["events"] = new
    mon.ext["event_slots"] = slots
    mon.ext["n_taps"] = k
    return cfg


def new_result() -> Dict[str, Any]:
    return {"violations": [], "stats": {}, "probes": {}, "error": None, "phase": None, "digest": None,
            "completed": False}


def _finish_result(res, mon: Monitor, ctx: Ctx) -> Dict[str, Any]:
    res["violations"] = [v.as_dict() for v in mon.violations]
    res["stats"] = dict(mon.stats)
    res["probes"] = dict(mon.probes)
    res["hostile_fired"] = list(ctx.hostile_fired)
    res["n_events"] = mon.seq
    res["book_sigs"] = len(mon.book_sigs)
    res["_mon"] = mon
    return res


def check_hostile_outcome(mon: Monitor, res, ctx: Ctx) -> None:
    """driver A: a hostile op must abort the stock runner with the documented rejection."""
    exp = mon.expect_abort
    if exp is None:
        return
    kind = exp["kind"]
    err = res["error"]
    want = {"spoof": ("ValueError",), "resubmit": ("ValueError",), "dup": ("ValueError",),
            "ghost_market": ("KeyError",), "ghost_cancel": ("ValueError",), "cancel_foreign": ("ValueError",)}[kind]
    if err is None:
        mon.viol("C04", "hostile_op_accepted", {"kind": kind})
        return
    if err["type"] not in want:
        mon.viol("C04", "hostile_op_wrong_rejection", {"kind": kind, "got": err["type"], "msg": err["msg"]})
    else:
        res["error"]["expected"] = True
        mon.probe("hostile_rejected_" + kind)
    if kind in ("spoof", "ghost_market", "ghost_cancel", "resubmit"):
        # nothing may have been accepted after the hostile object was returned ... for a spoofed
        # batch nothing at all; for the others only what preceded it in processing order
        if kind in ("spoof", "cancel_foreign") and (mon.stats.get("orders", 0) != exp["orders"] or mon.stats.get("cancels", 0) != exp["cancels"]):
            mon.viol("C04", "spoofed_batch_partly_accepted", {"kind": kind, "orders_after": mon.stats.get("orders", 0) - exp["orders"],
                                                              "cancels_after": mon.stats.get("cancels", 0) - exp["cancels"]})


# ====================================================================== driver A
class DepOrderRunner(SequentialRunner):
    """user-written runner variant: identical to the stock runner except that index markets are set up
    after the other markets, so that an index market may be *listed* before its components (the stock
    setup order makes such a config fail; the stock time-advance code is what C06/C17 are about)."""

    def _generate_markets(self, market_type_names):
        super()._generate_markets(market_type_names)
        from pams.index_market import IndexMarket
        first = [x for x in self._pending_setups if not isinstance(getattr(x[0], "__self__", None), IndexMarket)]
        last = [x for x in self._pending_setups if isinstance(getattr(x[0], "__self__", None), IndexMarket)]
        self._pending_setups = first + last


def run_A(scn: Dict[str, Any], on, plugins=()) -> Dict[str, Any]:
    res = new_result()
    mon = Monitor(on, "A")
    mon.plugins = list(plugins)
    ctx = Ctx(scn, mon)
    classes = make_classes(ctx)
    cfg = compile_config(scn, ctx, mon)
    pristine = copy.deepcopy(cfg)
    envn = scn.get("env") or {}
    if envn.get("global_seed") is not None:
        a, b = envn["global_seed"]
        random.seed(a)
        _np.random.seed(b)
    logger = classes["RecLogger"]() if scn.get("logger", True) else None
    mon.retain = logger is not None
    ctx.logger = logger
    res["phase"] = "construct"
    try:
        rcls = DepOrderRunner if scn.get("runner_variant") == "deporder" else SequentialRunner
        settings_arg: Any = cfg
        if scn.get("settings_form") == "path":
            # the runner also takes the path of a JSON file: one fixed path per process, rewritten for every run
            import tempfile
            settings_arg = os.path.join(tempfile.gettempdir(), f"vsim_settings_{os.getpid()}.json")
            with open(settings_arg, "w") as fh:
                json.dump(cfg, fh)
        elif scn.get("settings_form") == "stream":
            import io
            settings_arg = io.StringIO(json.dumps(cfg))
        try:
            runner = rcls(settings=settings_arg, prng=random.Random(scn["runner_seed"]), logger=logger,
                          simulator_class=classes["TapSimulator"])
        finally:
            if isinstance(settings_arg, str) and os.path.exists(settings_arg):
                os.remove(settings_arg)
        for c in classes.values():
            if c.__name__ == "LateMarket" and scn.get("late_class"):
                continue
            runner.class_register(c)
        if scn.get("register_clash"):
            from pams.agents.fcn_agent import FCNAgent
            from pams.market import Market
            base = {"Market": Market, "FCNAgent": FCNAgent}[scn["register_clash"]]
            runner.class_register(type(scn["register_clash"], (base,), {}))
        res["phase"] = "setup"
        mon.ext["cfg_pristine"] = pristine
        if scn.get("late_class"):
            # the user forgot to register a class: set-up is refused before anything exists; the class is then
            # registered and set-up repeated on the same runner
            try:
                runner._setup()
            except AttributeError:
                mon.probe("setup_refused_then_repeated")
                runner.class_register(classes["LateMarket"])
                runner._setup()
            else:
                mon.viol("C18", "hostile_config_accepted", {"kind": "class_missing"})
        else:
            runner._setup()
    except Exception as e:
        res["error"] = classify_exception(e)
        if res["error"]["in_harness"]:
            raise
        exp = scn.get("expect_setup_error")
        if exp is not None:
            if res["error"]["type"] in exp["types"]:
                res["error"]["expected"] = True
                mon.probe("hostile_config_rejected_" + exp["kind"])
            else:
                mon.viol(exp.get("property", "C18"), "hostile_config_wrong_error", {"kind": exp["kind"], "got": res["error"]["type"],
                                                              "msg": res["error"]["msg"], "want": exp["types"]})
                res["error"]["expected"] = True
        for p in mon.plugins:
            p.setup_failed(mon, res["error"])
        return _finish_result(res, mon, ctx)
    if scn.get("expect_setup_error") is not None:
        mon.viol(scn["expect_setup_error"].get("property", "C18"), "hostile_config_accepted", {"kind": scn["expect_setup_error"]["kind"]})
    res["phase"] = "run"
    mon.ext["runner"] = runner
    mon.ext["cfg"] = cfg
    mon.ext["probe_specs"] = scn.get("probes") or {}
    mon.attach(runner.simulator, cfg["simulation"]["sessions"])
    if scn.get("after_setup"):
        hostile_after_setup(scn, runner, mon, cfg)
    if scn.get("setup_only"):
        res["completed"] = True
        return _finish_result(res, mon, ctx)
    try:
        if scn.get("recover_corr"):
            # an inconsistent correlation circle is refused when the first values are generated - before any clock
            # has moved; the user deletes one correlation, as the message says, and runs again on the same runner
            try:
                runner._run()
            except Exception as e0:
                if type(e0).__name__ != "LinAlgError":
                    raise
                mon.probe("run_refused_then_repeated")
                a_, b_ = scn["recover_corr"]
                f_ = runner.simulator.fundamentals
                f_.remove_correlation(market_id1=runner.simulator.name2market[a_].market_id,
                                      market_id2=runner.simulator.name2market[b_].market_id)
                runner._run()
        else:
            runner._run()
        res["completed"] = True
    except Exception as e:
        res["error"] = classify_exception(e)
        if res["error"]["in_harness"]:
            raise
        mon.aborted = True
    check_hostile_outcome(mon, res, ctx)
    mon.ext["settings_unmodified"] = (cfg == pristine)
    mon.finish(completed=res["completed"])
    return _finish_result(res, mon, ctx)


def hostile_after_setup(scn, runner, mon, cfg) -> None:
    """between set-up and run: operations that pams must refuse, tried the way an "ensure it is configured"
    pass of user code would (try, catch ValueError, carry on).  A refusal must leave everything as it was - the
    run that follows is judged by the ordinary oracles against the *configured* world."""
    from .oracles_rules import resolved_settings
    sim = runner.simulator
    for what in scn.get("after_setup") or []:
        if what == "reregister_hooks":
            for h in list(sim.event_hooks):
                if type(h.event).__name__ == "Tap":
                    continue
                try:
                    sim._add_event(h)
                except ValueError:
                    mon.probe("duplicate_hook_refused")
                    continue
                mon.viol("C13", "hook_registered_twice", {"event": h.event.name, "hook": h.hook_type, "before": h.is_before})
        elif what == "resetup_rules":
            for ev in list(sim.events):
                cname = type(ev).__name__
                if cname not in ("TradingHaltRule", "PriceLimitRule") or ev.name not in cfg:
                    continue
                st = {k: v for k, v in resolved_settings(cfg, ev.name).items() if k != "class"}
                bads = [dict(st, triggerChangeRate=1)]
                if cname == "TradingHaltRule":
                    bads.append(dict(st, haltingTimeLength=float(st.get("haltingTimeLength", 1)) + 4.0))
                for bad in bads:
                    try:
                        ev.setup(settings=bad)
                    except ValueError:
                        mon.probe("refused_reconfiguration_of_rule")
                        continue
                    mon.viol("C15" if cname == "PriceLimitRule" else "C16", "hostile_op_accepted",
                             {"kind": "reconfiguration with a value of the wrong type", "rule": ev.name})
        elif what == "resetup_index":
            from pams.index_market import IndexMarket
            for im in [m for m in sim.markets if isinstance(m, IndexMarket)]:
                comps = im.get_components()
                fresh = [m for m in sim.markets if m is not im and m not in comps and not isinstance(m, IndexMarket)
                         and m.outstanding_shares is not None]
                if not comps or not fresh or im.name not in cfg:
                    continue
                st = {k: v for k, v in resolved_settings(cfg, im.name).items() if k != "class"}
                st["markets"] = [comps[0].name, fresh[0].name]  # refused at its first entry: already a component
                try:
                    im.setup(settings=st)
                except ValueError:
                    mon.probe("refused_reconfiguration_of_index")
                    continue
                mon.viol("C17", "duplicate_component_accepted", {"index": im.name, "via": "setup", "markets": st["markets"]})


# ====================================================================== driver B
class ExplorerRunner(SequentialRunner):
    """user-written runner: real setup, explicit schedule instead of the stock loop."""

    def __init__(self, *a, ops=None, mon=None, **k):
        super().__init__(*a, **k)
        self.ops = ops or []
        self.mon = mon
        self.batched = False
        self.unsettled: List[Any] = []

    def _run(self) -> None:
        sim = self.simulator
        mon = self.mon
        sim._update_times_on_markets(sim.markets)  # t: -1 -> 0
        sim.current_session = sim.sessions[0]
        for m in sim.markets:
            m._is_running = True
        agents = sim.agents
        for i, op in enumerate(self.ops):
            mon.ext["op_index"] = i
            k = op["k"]
            if k == "add":
                self._op_add(op, agents)
            elif k == "cancel":
                self._op_cancel(op)
            elif k == "match":
                self._match(sim.markets[op["m"] % len(sim.markets)], force=op.get("force", False))
            elif k == "match_all":
                for m in sim.markets:
                    self._match(m)
            elif k == "tick":
                if self.batched:
                    self._settle()
                for _ in range(int(op.get("n", 1))):
                    sim._update_times_on_markets(sim.markets)
                    mon.observe("tick")
            elif k == "run":
                m = sim.markets[op["m"] % len(sim.markets)]
                m._is_running = bool(op["v"])
                mon.rec("Run", m.market_id, bool(op["v"]))
                mon.probe("running_toggled")
            elif k == "retick":
                # a tick-size reform: the public attribute is reassigned while the market lives
                m = sim.markets[op["m"] % len(sim.markets)]
                m.tick_size = float(op["tick"])
                mon.mm[m.market_id].tick = float(op["tick"])
                mon.rec("Tick", m.market_id, float(op["tick"]))
                mon.probe("tick_size_changed_mid_run")
            elif k in ("resubmit", "wrong_market", "ghost_cancel", "cancel_wrong_market", "strict_offgrid"):
                self._op_hostile(op, agents)
            else:
                raise ValueError(k)
        if self.batched:
            self._settle()

    def _after_accept(self, market, cont):
        if cont:
            self._match(market)

    def _match(self, market, force=False):
        sim = self.simulator
        if not market.is_running and not force:
            return
        if force and not market.is_running:
            self.mon.ext["forced"] = True
            try:
                logs = market._execution()
            except AssertionError:
                self.mon.probe("forced_round_refused")
                logs = []
                self._refusal_left_no_trace(market, "forced round on a stopped market")
            finally:
                self.mon.ext["forced"] = False
        else:
            logs = market._execution()
        if self.batched:
            # a driver that settles several rounds (of several markets) with one call, as a parallel runner would
            self.unsettled.extend(logs)
            if self.unsettled:
                self.mon.ext["unsettled"] = True
            if len(self.unsettled) >= 6:
                self._settle()
            return
        sim._update_agents_for_execution(execution_logs=logs)
        for lg in logs:
            sim.id2agent[lg.buy_agent_id].executed_order(log=lg)
            sim.id2agent[lg.sell_agent_id].executed_order(log=lg)
            sim._trigger_event_after_execution(execution_log=lg)
        self.mon.observe("match")

    def _settle(self):
        sim = self.simulator
        logs, self.unsettled = self.unsettled, []
        if logs:
            if len({(lg.market_id, lg.price) for lg in logs}) > 1:
                self.mon.probe("settled_fills_of_several_prices_in_one_call")
            sim._update_agents_for_execution(execution_logs=logs)
            self.mon.ext["unsettled"] = False
            for lg in logs:
                sim.id2agent[lg.buy_agent_id].executed_order(log=lg)
                sim.id2agent[lg.sell_agent_id].executed_order(log=lg)
                sim._trigger_event_after_execution(execution_log=lg)
        self.mon.ext["unsettled"] = False
        self.mon.observe("match")

    def _op_add(self, op, agents):
        sim = self.simulator
        agent = agents[op["a"] % len(agents)]
        market = sim.markets[op["m"] % len(sim.markets)]
        is_buy = op["side"] == "b"
        ttl = op.get("ttl")
        px = float(op["px"]) if op.get("kind", "limit") == "limit" else None
        if op.get("typ"):
            from .harness import typed_fields
            is_buy, ttl = typed_fields(op["typ"], is_buy, ttl)
            if op["typ"] == "np" and px is not None:
                px = _np.float64(px)
        if op.get("kind", "limit") == "limit":
            o = Order(agent_id=agent.agent_id, market_id=market.market_id, is_buy=is_buy, kind=LIMIT_ORDER,
                      volume=(_np.int64(op["vol"]) if op.get("typ") == "np" else int(op["vol"])), price=px, ttl=ttl)
        else:
            o = Order(agent_id=agent.agent_id, market_id=market.market_id, is_buy=is_buy, kind=MARKET_ORDER,
                      volume=(_np.int64(op["vol"]) if op.get("typ") == "np" else int(op["vol"])), ttl=ttl)
        if op.get("typ") == "ip" and o.price is not None and abs(o.price) < 1e15:
            o.price = int(round(o.price))  # a price written as a whole number (a Python int)
        o = cloned(o, op.get("typ"))
        agent.mine.append(o)
        sim._trigger_event_before_order(order=o)
        log = market._add_order(order=o)
        agent.submitted_order(log=log)
        sim._trigger_event_after_order(order_log=log)
        self._after_accept(market, op.get("cont", False))

    def _pick(self, op, market):
        mon = self.mon
        mm = mon.mm[market.market_id]
        want = op.get("ref", "live")
        if want in ("best", "nonbest"):
            side = mm.buy if op.get("side", "b") == "b" else mm.sell
            if not side:
                side = mm.sell if side is mm.buy else mm.buy
            ranked = sorted(side.values(), key=lambda o: o.rank())
            ranked = [o for o in ranked if o.obj is not None]
            if not ranked:
                return None
            if want == "best":
                return ranked[0]
            if len(ranked) < 2:
                return None
            return ranked[1 + int(op.get("nth", 0)) % (len(ranked) - 1)]
        cands = [o for o in mm.orders.values() if (want == "any" or o.status == want) and o.obj is not None]
        if not cands:
            return None
        cands.sort(key=lambda o: o.oid)
        return cands[int(op.get("nth", 0)) % len(cands)]

    def _op_cancel(self, op):
        sim = self.simulator
        market = sim.markets[op["m"] % len(sim.markets)]
        mo = self._pick(op, market)
        if mo is None:
            return
        c = Cancel(order=mo.obj)
        sim._trigger_event_before_cancel(cancel=c)
        log = market._cancel_order(cancel=c)
        sim.id2agent[mo.agent].canceled_order(log=log)
        sim._trigger_event_after_cancel(cancel_log=log)
        self._after_accept(market, op.get("cont", False))

    def _refusal_left_no_trace(self, market, what, arg=None, snap=None):
        """after a refused operation: the resting orders carry the stamps they had, and the object that was
        handed in is as it was.  Reported under every property of the running check (a refused operation that
        rewrites state is visible to each of them only later, through the objects the scenario goes on using)."""
        mon = self.mon
        mm = mon.mm[market.market_id]
        for mo in list(mm.buy.values()) + list(mm.sell.values()):
            if mo.obj is not None and (mo.obj.placed_at != mo.placed_at or mo.obj.order_id != mo.oid
                                       or bool(mo.obj.is_canceled)):
                for p_ in sorted(mon.on):
                    mon.viol(p_, "refused_operation_changed_resting_order",
                             {"what": what, "order": mo.brief(), "placed_at_now": mo.obj.placed_at, "id_now": mo.obj.order_id,
                              "is_canceled_now": mo.obj.is_canceled})
                break
        if arg is not None and snap is not None and order_fields(arg) != snap:
            for p_ in sorted(mon.on):
                mon.viol(p_, "refused_operation_changed_its_argument",
                         {"what": what, "before": repr(snap), "after": repr(order_fields(arg))})

    def _place(self, agent, market, o, cont=False):
        sim = self.simulator
        agent.mine.append(o)
        sim._trigger_event_before_order(order=o)
        log = market._add_order(order=o)
        agent.submitted_order(log=log)
        sim._trigger_event_after_order(order_log=log)
        self._after_accept(market, cont)

    def _op_hostile(self, op, agents):
        import warnings as _w
        sim = self.simulator
        mon = self.mon
        k = op["k"]
        market = sim.markets[op["m"] % len(sim.markets)]
        arg = None
        snap = None
        follow = None
        try:
            if k == "resubmit":
                mo = self._pick(op, market)
                if mo is None:
                    return
                mon.probe("hostile_resubmit_" + mo.status)
                arg, snap = mo.obj, order_fields(mo.obj)
                market._add_order(order=mo.obj)
            elif k == "wrong_market":
                if len(sim.markets) < 2:
                    return
                other = sim.markets[(op["m"] + 1) % len(sim.markets)]
                agent = agents[op["a"] % len(agents)]
                o = Order(agent_id=agent.agent_id, market_id=other.market_id, is_buy=op["side"] == "b",
                          kind=LIMIT_ORDER, volume=1, price=float(op["px"]))
                mon.probe("hostile_wrong_market")
                arg, snap = o, order_fields(o)
                if op.get("then"):
                    follow = (agent, other, o)  # the router then hands the same object to the market it names
                market._add_order(order=o)
            elif k == "ghost_cancel":
                agent = agents[op["a"] % len(agents)]
                o = Order(agent_id=agent.agent_id, market_id=market.market_id, is_buy=op["side"] == "b",
                          kind=LIMIT_ORDER, volume=int(op.get("vol", 1)), price=float(op["px"]),
                          ttl=op.get("ttl"))
                mon.probe("hostile_ghost_cancel")
                arg, snap = o, order_fields(o)
                if op.get("then"):
                    follow = (agent, market, o)  # a cancel sent too early; the order itself is submitted afterwards
                market._cancel_order(cancel=Cancel(order=o))
            elif k == "cancel_wrong_market":
                if len(sim.markets) < 2:
                    return
                other = sim.markets[(op["m"] + 1) % len(sim.markets)]
                mo = self._pick(op, market)
                if mo is None:
                    return
                mon.probe("hostile_cancel_wrong_market")
                arg, snap = mo.obj, order_fields(mo.obj)
                other._cancel_order(cancel=Cancel(order=mo.obj))
            elif k == "strict_offgrid":
                # a client that runs with warnings as errors: an off-grid price is then refused (the warning is
                # raised) and the client submits the corrected price with a new object
                agent = agents[op["a"] % len(agents)]
                px = float(op["px"]) + 0.37 * market.tick_size
                if px % market.tick_size == 0:
                    return
                o = Order(agent_id=agent.agent_id, market_id=market.market_id, is_buy=op["side"] == "b",
                          kind=LIMIT_ORDER, volume=1, price=px)
                mon.probe("hostile_strict_offgrid")
                arg, snap = o, order_fields(o)
                lvl = math.floor(px / market.tick_size) if o.is_buy else math.ceil(px / market.tick_size)
                o2 = Order(agent_id=agent.agent_id, market_id=market.market_id, is_buy=o.is_buy, kind=LIMIT_ORDER,
                           volume=1, price=lvl * market.tick_size)
                follow = (agent, market, o2)
                with _w.catch_warnings():
                    _w.simplefilter("error", UserWarning)
                    market._add_order(order=o)
        except (ValueError, UserWarning):
            mon.probe("hostile_rejected")
            self._refusal_left_no_trace(market, k, arg, snap)
            mon.observe("rejected")
            if follow is not None:
                mon.probe("carried_on_after_refusal")
                self._place(*follow, cont=op.get("cont", False))
            return
        mon.viol("C04", "hostile_op_accepted", {"kind": k, "op": op})


def order_fields(o):
    return (o.agent_id, o.market_id, o.is_buy, o.kind, o.price, o.volume, o.ttl, o.placed_at, o.order_id, bool(o.is_canceled))


def run_B(scn: Dict[str, Any], on, plugins=()) -> Dict[str, Any]:
    res = new_result()
    mon = Monitor(on, "B")
    mon.plugins = list(plugins)
    ctx = Ctx(scn, mon)
    classes = make_classes(ctx)
    cfg = compile_config(scn, ctx, mon)
    logger = classes["RecLogger"]() if scn.get("logger", True) else None
    mon.retain = logger is not None
    ctx.logger = logger
    res["phase"] = "setup"
    runner = ExplorerRunner(settings=cfg, prng=random.Random(scn["runner_seed"]), logger=logger,
                            simulator_class=classes["TapSimulator"], ops=scn["ops"], mon=mon)
    runner.batched = scn.get("settle") == "batched"
    for c in classes.values():
        runner.class_register(c)
    try:
        runner._setup()
    except Exception as e:
        res["error"] = classify_exception(e)
        raise
    if scn.get("extra_agent"):
        # a user-written runner may number its agents as it likes: one more agent, registered by hand under an id
        # that is not its rank in the agent list (Agent(...), setup(...), Simulator._add_agent - what the stock
        # runner does for every agent)
        sim_ = runner.simulator
        xa = classes["ScriptedAgent"](agent_id=int(scn["extra_agent"]), prng=random.Random(scn["runner_seed"] + 1),
                                      simulator=sim_, name="XA", logger=logger)
        xa.setup(settings={"cashAmount": 1000000, "assetVolume": 1000}, accessible_markets_ids=[m.market_id for m in sim_.markets])
        sim_._add_agent(agent=xa, group_name="XA")
        mon.probe("agent_registered_under_sparse_id")
    mon.attach(runner.simulator, cfg["simulation"]["sessions"])
    res["phase"] = "run"
    try:
        runner._run()
        res["completed"] = True
    except Exception as e:
        res["error"] = classify_exception(e)
        if res["error"]["in_harness"]:
            raise
        res["error"]["op_index"] = mon.ext.get("op_index")
        mon.aborted = True
    mon.finish(completed=res["completed"])
    return _finish_result(res, mon, ctx)


def run_scenario(scn: Dict[str, Any], on, plugins=()) -> Dict[str, Any]:
    d = scn.get("driver", "A")
    if d == "A":
        return run_A(scn, on, plugins)
    if d == "B":
        return run_B(scn, on, plugins)
    if d == "F":
        from .driver_f import run_F
        return run_F(scn, on, plugins)
    raise ValueError(d)
