"""Seeded generator of driver-A scenarios (whole runs through the real SequentialRunner).

A scenario is a self-contained JSON document: pams config (class names pointing at harness or
built-in classes), runner seed, one script per scripted agent, probe-event specs, knobs.
"""
import random
from typing import Any, Dict, List, Optional

from .gen_b import TICKS, gen_price


def agent_names(group: str, n: int) -> List[str]:
    return [group] if n == 1 else [f"{group}-{i}" for i in range(n)]


class World:
    """mutable scenario under construction."""

    def __init__(self, r: random.Random):
        self.r = r
        self.cfg: Dict[str, Any] = {"simulation": {"markets": [], "agents": [], "sessions": []}}
        self.markets: List[Dict[str, Any]] = []  # {name, tick, p0, index:bool, components}
        self.scripted: List[Dict[str, Any]] = []  # {name, hft}
        self.scripts: Dict[str, List] = {}
        self.probes: Dict[str, Dict] = {}
        self.knobs: Dict[str, Any] = {}
        self.sessions: List[Dict[str, Any]] = []
        self.nolog = False

    # ---------------------------------------------------------------- markets
    def add_market(self, name: str, tick: float, p0: float, vol: float = 0.0, drift: float = 0.0,
                   shares: Optional[int] = None, cls: str = "TapMarket", price_key: str = "marketPrice") -> None:
        d: Dict[str, Any] = {"class": cls, "tickSize": tick, price_key: p0}
        if vol:
            d["fundamentalVolatility"] = vol
        if drift:
            d["fundamentalDrift"] = drift
        if shares is not None:
            d["outstandingShares"] = shares
        self.cfg[name] = d
        self.cfg["simulation"]["markets"].append(name)
        self.markets.append({"name": name, "tick": tick, "p0": p0, "index": False})

    def add_index(self, name: str, tick: float, p0: float, components: List[str], position: Optional[int] = None) -> None:
        d = {"class": "TapIndexMarket", "tickSize": tick, "marketPrice": p0, "markets": list(components)}
        self.cfg[name] = d
        lst = self.cfg["simulation"]["markets"]
        if position is None:
            lst.append(name)
            self.markets.append({"name": name, "tick": tick, "p0": p0, "index": True, "components": components})
        else:
            lst.insert(position, name)
            self.markets.insert(position, {"name": name, "tick": tick, "p0": p0, "index": True, "components": components})

    # ---------------------------------------------------------------- agents
    def add_scripted(self, group: str, n: int, hft: bool, markets: Optional[List[str]] = None,
                     cash: Any = 1000000, asset: Any = 1000) -> List[str]:
        self.cfg[group] = {"class": "ScriptedHFT" if hft else "ScriptedAgent", "numAgents": n,
                           "markets": markets or [m["name"] for m in self.markets],
                           "cashAmount": cash, "assetVolume": asset}
        self.cfg["simulation"]["agents"].append(group)
        names = agent_names(group, n)
        for nm in names:
            self.scripted.append({"name": nm, "hft": hft, "markets": markets or [m["name"] for m in self.markets]})
        return names

    def add_group(self, group: str, d: Dict[str, Any]) -> None:
        self.cfg[group] = d
        self.cfg["simulation"]["agents"].append(group)

    # ---------------------------------------------------------------- sessions
    def add_session(self, steps: int, place: bool, execute: bool, events: Optional[List[str]] = None,
                    max_normal: Optional[int] = None, max_hft: Optional[int] = None, rate: Optional[float] = None,
                    legacy: bool = False) -> Dict[str, Any]:
        s: Dict[str, Any] = {"sessionName": len(self.sessions), "iterationSteps": steps, "withOrderPlacement": place,
                             "withOrderExecution": execute, "withPrint": False}
        if max_normal is not None:
            s["maxNormalOrders"] = max_normal
        if max_hft is not None:
            s["maxHifreqOrders" if legacy else "maxHighFrequencyOrders"] = max_hft
        if rate is not None:
            s["hifreqSubmitRate" if legacy else "highFrequencySubmitRate"] = rate
        if events:
            s["events"] = list(events)
        self.sessions.append(s)
        self.cfg["simulation"]["sessions"].append(s)
        return s

    def total_steps(self) -> int:
        return sum(s["iterationSteps"] for s in self.sessions)

    def scenario(self, **extra) -> Dict[str, Any]:
        scn = {"format": 1, "driver": "A", "runner_seed": self.r.randrange(2 ** 31), "config": self.cfg,
               "scripts": self.scripts, "probes": self.probes, "knobs": self.knobs}
        scn.update(getattr(self, "extra", {}) or {})
        if self.nolog:
            scn["logger"] = False
        names = self.cfg["simulation"]["markets"]
        for m in self.markets:
            if m["index"] and any(names.index(c) > names.index(m["name"]) for c in m["components"]):
                scn["runner_variant"] = "deporder"
                scn["index_listed_before_component"] = True
        scn.update(extra)
        if "after_setup" not in scn and self.r.random() < 0.1 and not scn.get("expect_setup_error"):
            # an "ensure everything is configured" pass of user code between set-up and run (all refused)
            scn["after_setup"] = self.r.sample(["reregister_hooks", "resetup_rules", "resetup_index"], self.r.randint(1, 3))
        return scn


# ---------------------------------------------------------------------- script generation
def gen_order_op(r: random.Random, w: World, acc: List[str], p_market: float, p_ttl: float, bigvol: bool,
                 ttls=(1, 2, 3, 10), rel_mode: float = 0.0) -> Dict[str, Any]:
    mi = r.randrange(len(acc))
    mk = [m for m in w.markets if m["name"] == acc[mi]][0]
    side = r.choice("bs")
    if r.random() < p_market:
        op = {"k": "market", "m": mi, "side": side, "vol": r.randint(1, 4)}
    else:
        if r.random() < rel_mode:
            f = 1.0 + r.choice([-1, 1]) * r.choice([0.0, 0.001, 0.01, 0.03, 0.08])
            px = {"mode": "rel", "f": f}
        else:
            px = {"mode": "abs", "v": gen_price(r, mk["tick"], mk["p0"], side, 0.0)}
        op = {"k": "limit", "m": mi, "side": side, "px": px,
              "vol": r.randint(50, 100) if bigvol and r.random() < 0.3 else r.randint(1, 5)}
    if r.random() < p_ttl:
        op["ttl"] = r.choice(ttls)
    if r.random() < 0.04:
        op["typ"] = r.choice(["np", "fl", "fr", "dc", "pk", "ip"])
    return op


def gen_turn(r: random.Random, w: World, acc: List[str], p_empty: float, p_cancel: float, p_market: float,
             p_ttl: float, bigvol: bool, max_ops: int = 3, rel_mode: float = 0.0) -> List[Dict[str, Any]]:
    if r.random() < p_empty:
        return []
    ops = []
    for _ in range(r.randint(1, max_ops)):
        if r.random() < 0.02:
            ops.append({"k": "open"})
            continue
        if r.random() < p_cancel:
            if r.random() < 0.08:
                ops.append({"k": "recancel", "m": r.randrange(len(acc)), "nth": r.randrange(6)})
                continue
            ops.append({"k": "cancel", "m": r.randrange(len(acc)),
                        "ref": r.choice(["live", "live", "live", "filled", "expired", "cancelled", "any"]),
                        "nth": r.randrange(12)})
        else:
            ops.append(gen_order_op(r, w, acc, p_market, p_ttl, bigvol, rel_mode=rel_mode))
    return ops


def fill_scripts(r: random.Random, w: World, p_empty=0.35, p_cancel=0.15, p_market=0.1, p_ttl=0.4, bigvol=False,
                 max_ops=3, rel_mode=0.0, hft_mult=2) -> None:
    steps = w.total_steps()
    for a in w.scripted:
        n_turns = steps * (hft_mult if a["hft"] else 1) + 2
        acc = a["markets"]
        w.scripts[a["name"]] = [gen_turn(r, w, acc, p_empty, p_cancel, p_market, p_ttl, bigvol, max_ops, rel_mode)
                                for _ in range(n_turns)]


def basic_markets(r: random.Random, w: World, n: int, shares: bool = False, volatile: float = 0.0) -> None:
    for i in range(n):
        tick = r.choice(TICKS) if r.random() < 0.5 else 1.0
        p0 = float(round(r.choice([100, 300, 50, 1000]) / tick) * tick) if tick >= 0.01 else 300.0
        if r.random() < 0.1 and tick == int(tick) and p0 == int(p0):
            tick, p0 = int(tick), int(p0)  # JSON integers instead of floats
        vol = r.choice([0.0, 0.001, 0.01]) if r.random() < volatile else 0.0
        w.add_market(f"M{i}", tick, p0, vol=vol, drift=r.choice([0.0, 0.0, 0.001, -0.001]) if vol or r.random() < 0.2 else 0.0,
                     shares=r.choice([100, 250, 1000, 7]) if shares else None,
                     price_key="marketPrice" if r.random() < 0.7 else "fundamentalPrice")


def session_layout(r: random.Random, w: World, n_sessions: int, max_steps: int, p_noexec=0.3, p_noplace=0.1,
                   caps=True) -> None:
    n_norm = sum(1 for a in w.scripted if not a["hft"])
    for i in range(n_sessions):
        place = r.random() >= p_noplace
        execute = r.random() >= p_noexec
        w.add_session(r.randint(1, max_steps), place, execute,
                      max_normal=r.choice([None, 1, 2, n_norm, n_norm + 1, 3]) if caps else n_norm + 1,
                      max_hft=r.choice([None, 1, 2, 5]) if caps else 5,
                      rate=r.choice([None, 1.0, 0.5, 0.3]) if caps else 1.0)


# ---------------------------------------------------------------------- profiles
def gen_engine(r: random.Random, profile: str = "engine") -> Dict[str, Any]:
    """C01-C04, C08, C19: the schedules the real runner produces: shuffled agents, HFT interleaving,
    sessions without execution (outages), ttl races, market orders, one late hostile op."""
    w = World(r)
    basic_markets(r, w, 1 if r.random() < 0.7 else 2)
    w.add_scripted("SA", r.randint(2, 6), False)
    if r.random() < 0.5:
        w.add_scripted("SH", r.randint(1, 2), True)
    session_layout(r, w, r.randint(1, 4), r.choice([4, 10, 25]), p_noexec=0.35, p_noplace=0.12)
    if not any(s["withOrderExecution"] and s["withOrderPlacement"] for s in w.sessions):
        w.add_session(r.randint(2, 12), True, True, max_normal=len(w.scripted), max_hft=3, rate=1.0)
    fill_scripts(r, w, p_empty=r.choice([0.2, 0.4, 0.6]), p_cancel=r.choice([0.1, 0.2, 0.3]),
                 p_market=r.choice([0.0, 0.05, 0.15, 0.3]), p_ttl=r.choice([0.0, 0.4, 0.8]),
                 bigvol=r.random() < 0.15)
    w.knobs["storage_chunk"] = r.choice([None, None, 2, 3, 7])
    add_user_rules(r, w, p_rewrite=0.12, p_halt=0.08, p_breaker=0.04)
    if profile == "engine_hostile" and r.random() < 0.7:
        # one hostile op, late in the run (the stock runner has no recovery)
        victim = r.choice(w.scripted)
        turns = w.scripts[victim["name"]]
        pos = min(len(turns) - 1, int(len(turns) * (0.3 + 0.5 * r.random())) // (2 if victim["hft"] else 1))
        kind = r.choice(["spoof", "resubmit", "dup", "ghost_market", "ghost_cancel", "bad_ctor", "cancel_foreign"])
        mk = w.markets[0]
        op = {"k": kind, "m": 0, "side": r.choice("bs"), "px": {"mode": "abs", "v": mk["p0"]}, "vol": 1,
              "nth": r.randrange(5), "ref": r.choice(["live", "filled", "cancelled", "expired", "any"]),
              "which": r.choice(["vol0", "volneg", "ttl0", "ttlneg", "mkt_with_price", "limit_no_price"])}
        good = gen_turn(r, w, victim["markets"], 0.0, 0.0, 0.0, 0.3, False, 2)
        where = r.randrange(len(good) + 1)
        turns[pos] = good[:where] + [op] + good[where:]
    return w.scenario()


def add_user_rules(r: random.Random, w: World, p_rewrite: float = 0.0, p_halt: float = 0.0, p_breaker: float = 0.0,
                   p_bystander: float = 0.0, owner: bool = False) -> None:
    """user-written events next to whatever the profile is about: a rule that rewrites pending orders (kind,
    side, volume, lifetime, account), the shipped halt rule, a circuit breaker, and bystanders whose hooks do
    nothing but sit in the dispatch tables before or after the others."""
    total = w.total_steps()

    def place(name, spec):
        w.probes[name] = spec
        w.cfg[name] = {"class": "ProbeEvent"}
        ev = r.choice(w.sessions).setdefault("events", [])
        ev.insert(r.randrange(len(ev) + 1), name)

    if r.random() < p_rewrite:
        rw = {"every": r.choice([1, 1, 2, 3])}
        u = r.random()
        if u < 0.4:
            rw.update({"kind": "L", "off": r.choice([0.0, 0.01, -0.01, 0.03, -0.03])})
        elif u < 0.55:
            rw["kind"] = "M"
        if r.random() < 0.3:
            rw["flip"] = True
        if r.random() < 0.3:
            rw["vol"] = r.choice([1, 3, -1])
        if r.random() < 0.3:
            rw["ttl"] = r.choice([1, 2, 4])
        if owner and r.random() < 0.5:
            rw["owner"] = r.randrange(8)
        times = None if r.random() < 0.6 else sorted(r.sample(range(total + 1), min(total + 1, r.randint(1, 5))))
        place("RW", {"hooks": [{"kind": "order", "before": True, "times": times}], "rewrite": rw})
    if r.random() < p_rewrite * 0.6:
        place("PCX", {"hooks": [{"kind": "order", "before": True, "times": None}], "premature": {"every": r.choice([1, 2, 3])}})
    if r.random() < p_halt:
        plain = [m["name"] for m in w.markets if not m["index"]]
        w.cfg["THX"] = {"class": "TradingHaltRule", "targetMarkets": [r.choice(plain)],
                        "triggerChangeRate": r.choice([0.005, 0.01, 0.03]), "haltingTimeLength": r.randint(1, 5), "enabled": True}
        ev = r.choice(w.sessions).setdefault("events", [])
        ev.insert(r.randrange(len(ev) + 1), "THX")
    has_halt = any(isinstance(v, dict) and v.get("class") == "TradingHaltRule" for v in w.cfg.values())
    if r.random() < p_breaker and not has_halt:  # a breaker that switches matching back on would fight the halt rule
        place("BRK", {"hooks": [{"kind": "execution", "before": False, "times": None},
                                {"kind": "market", "before": True, "times": None}],
                      "breaker": {"after": r.randint(1, 3), "restore": r.random() < 0.5}})
    if r.random() < p_bystander:
        kinds = [("order", True), ("order", False), ("cancel", True), ("cancel", False), ("execution", False),
                 ("market", True), ("market", False), ("session", True)]
        for k in range(r.randint(1, 2)):
            hooks = []
            for kind, before in r.sample(kinds, r.randint(1, 4)):
                times = None if r.random() < 0.4 else sorted(r.sample(range(total + 1), min(total + 1, r.randint(1, 6))))
                hooks.append({"kind": kind, "before": before, "times": times})
            place(f"BY{k}", {"hooks": hooks})


# ---------------------------------------------------------------------- generic world with profile switches
FCN_SETTINGS = {
    "class": "FCNAgent", "cashAmount": 10000, "assetVolume": 50,
    "fundamentalWeight": {"expon": [1.0]}, "chartWeight": {"expon": [0.5]}, "noiseWeight": {"expon": [1.0]},
    "noiseScale": 0.01, "timeWindowSize": [3, 12], "orderMargin": [0.0, 0.1],
}


def add_index_world(r: random.Random, w: World, n_comp: int, equal_shares: bool = False, volatile: float = 0.5,
                    ticks_one: bool = True) -> str:
    """components M0..M{n-1} with outstanding shares and an index market placed anywhere in the list."""
    sh = r.choice([100, 250, 1000])
    base_units = r.random() < 0.06  # supplies declared in base units: each below 2^63, their sum above
    for i in range(n_comp):
        tick = 1.0 if ticks_one or r.random() < 0.6 else r.choice([0.5, 0.1, 0.01])
        p0 = float(r.choice([100, 300, 50, 420]))
        vol = r.choice([0.001, 0.01, 0.03]) if r.random() < volatile else 0.0
        w.add_market(f"M{i}", tick, p0, vol=vol, drift=r.choice([0.0, 0.001, -0.002]) if r.random() < 0.4 else 0.0,
                     shares=(sh if equal_shares else r.choice([100, 250, 1000, 7, 33])) if not base_units or equal_shares
                     else r.choice([2500000000000000000, 4100000000000000000, 3300000000000000000, 9000000000000000000]),
                     price_key=r.choice(["marketPrice", "fundamentalPrice"]))
    comps = [f"M{i}" for i in range(n_comp)]
    if r.random() < 0.3:
        r.shuffle(comps)
    shares = [w.cfg[c]["outstandingShares"] for c in comps]
    p_idx = sum(w.cfg[c].get("marketPrice", w.cfg[c].get("fundamentalPrice")) * s for c, s in zip(comps, shares)) / sum(shares)
    pos = r.choice([None, 0, r.randrange(0, n_comp + 1)])
    w.add_index("IDX", 1.0 if ticks_one else r.choice([1.0, 0.5]), float(round(p_idx)), comps, position=pos)
    return "IDX"


def gen_world(r: random.Random, profile: str) -> Dict[str, Any]:
    w = World(r)
    P = profile
    with_index = {"ledger": 0.5, "clock": 0.5, "index": 1.0, "logger": 0.2, "callbacks": 0.2, "hooks": 0.4,
                  "sessions": 0.15}.get(P, 0.0)
    volatile = {"clock": 0.8, "index": 0.8, "ledger": 0.3}.get(P, 0.2)
    arb_watch = P == "index" and r.random() < 0.12
    w.arb_watch = arb_watch
    if r.random() < with_index:
        add_index_world(r, w, r.randint(2, 4) if P == "index" else r.randint(2, 3), equal_shares=arb_watch,
                        volatile=volatile, ticks_one=r.random() < 0.7)
    else:
        basic_markets(r, w, r.choice([1, 1, 2, 3]) if P != "clock" else r.randint(1, 4), volatile=volatile)
    n_norm = r.randint(1, 6) if P != "sessions" else r.randint(0, 6)
    n_hft = r.choice([0, 1, 2, 3]) if P not in ("sessions", "callbacks", "hooks") else r.randint(0, 4)
    if P in ("callbacks", "hooks") and n_hft == 0 and r.random() < 0.7:
        n_hft = r.randint(1, 3)
    if n_norm:
        if n_norm >= 2 and r.random() < 0.3:
            k = r.randint(1, n_norm - 1)
            w.add_scripted("SA", k, False)
            w.add_scripted("SB", n_norm - k, False, cash={"uniform": [5000, 50000]}, asset=[10, 200])
        else:
            w.add_scripted("SA", n_norm, False)
    if n_hft:
        w.add_scripted("SH", n_hft, True)
    if not w.scripted:
        w.add_scripted("SA", 1, False)
    if len(w.markets) >= 2 and r.random() < 0.3:
        # a group with access to a strict subset of the markets
        sub = r.sample([m["name"] for m in w.markets], r.randint(1, len(w.markets) - 1))
        w.add_scripted("SS", r.randint(1, 2), r.random() < 0.3, markets=sub)
    comps_all = [m["name"] for m in w.markets if not m["index"]]
    if any(m["index"] for m in w.markets) and len(comps_all) >= 2 and r.random() < 0.3 and P != "sessions":
        # a second index market; components may belong to both
        sub = r.sample(comps_all, r.randint(2, len(comps_all)))
        shares = [w.cfg[c]["outstandingShares"] for c in sub]
        pidx = sum(w.cfg[c].get("marketPrice", w.cfg[c].get("fundamentalPrice")) * sh for c, sh in zip(sub, shares)) / sum(shares)
        w.add_index("IDX2", 1.0, float(round(pidx)), sub, position=None)
        for a in w.scripted:
            if a["name"].startswith("SA") and r.random() < 0.5:
                pass
    if P in ("ledger", "clock") and r.random() < 0.5:
        # built-in agents trade next to the scripted ones
        d = dict(FCN_SETTINGS)
        d["numAgents"] = r.randint(1, 5)
        d["markets"] = [m["name"] for m in w.markets if not m["index"]] or [w.markets[0]["name"]]
        w.add_group("FCN", d)
    # sessions
    if P == "clock":
        long_run = r.random() < 0.4
        if long_run:
            session_layout(r, w, r.randint(1, 3), r.choice([90, 120]), p_noexec=0.2, p_noplace=0.1)
            while w.total_steps() <= 200:
                w.add_session(r.randint(40, 120), True, True, max_normal=3, max_hft=2, rate=0.5)
        else:
            session_layout(r, w, r.randint(1, 5), r.choice([5, 12, 30]), p_noexec=0.25, p_noplace=0.15)
            w.knobs["storage_chunk"] = r.randint(2, 9)
            w.knobs["generation_chunk"] = r.randint(2, 9)
    elif P == "sessions":
        n_n = sum(1 for a in w.scripted if not a["hft"])
        for i in range(r.randint(1, 4)):
            w.add_session(r.randint(1, 14), r.random() < 0.8, r.random() < 0.6,
                          max_normal=r.choice([None, 0, 1, 2, n_n, n_n + 1]),
                          max_hft=r.choice([None, 0, 1, 2, n_hft, n_hft + 1]),
                          rate=r.choice([None, 0, 0.0, 0.3, 0.7, 1, 1.0]),
                          legacy=r.random() < 0.1)
    else:
        session_layout(r, w, r.randint(1, 4), r.choice([4, 10, 20]), p_noexec=0.3, p_noplace=0.12)
        if not any(s["withOrderExecution"] and s["withOrderPlacement"] for s in w.sessions):
            w.add_session(r.randint(2, 12), True, True, max_normal=len(w.scripted), max_hft=3, rate=1.0)
    if P == "index" and r.random() < 0.04:
        idx = [m for m in w.markets if m["index"]][0]
        if r.random() < 0.5:
            w.cfg[idx["name"]]["markets"] = w.cfg[idx["name"]]["markets"] + [w.cfg[idx["name"]]["markets"][0]]
            w.extra = {"expect_setup_error": {"kind": "dup_component", "types": ["ValueError"], "property": "C17"}}
        else:
            del w.cfg[w.cfg[idx["name"]]["markets"][-1]]["outstandingShares"]
            w.extra = {"expect_setup_error": {"kind": "component_without_shares", "types": ["AssertionError", "ValueError"], "property": "C17"}}
    if (P == "ledger" and r.random() < 0.2) or (P in ("callbacks", "hooks", "index") and r.random() < 0.06):
        w.nolog = True  # a runner without a logger
    p_empty = 0.5 if P == "sessions" else r.choice([0.2, 0.4, 0.6])
    fill_scripts(r, w, p_empty=p_empty, p_cancel=r.choice([0.1, 0.2, 0.3]),
                 p_market=r.choice([0.0, 0.05, 0.15]), p_ttl=r.choice([0.0, 0.4, 0.8]),
                 bigvol=r.random() < 0.1, max_ops=4 if P == "sessions" else 3,
                 hft_mult=3 if P in ("sessions", "callbacks", "hooks") else 2)
    events_for(r, w, P)
    plain_ = [m["name"] for m in w.markets if not m["index"]]
    if P == "clock" and len(plain_) >= 3 and not any(m["index"] for m in w.markets) and r.random() < 0.15:
        for nm in plain_[:3]:
            w.cfg[nm]["fundamentalVolatility"] = 0.01
        w.cfg["simulation"]["fundamentalCorrelations"] = {"pairwise": [[plain_[0], plain_[1], 0.6], [plain_[1], plain_[2], 0.6],
                                                                      [plain_[0], plain_[2], -0.9]]}
        return w.scenario(recover_corr=[plain_[0], plain_[2]])
    return w.scenario()


def events_for(r: random.Random, w: World, P: str) -> None:
    total = w.total_steps()
    real = [m for m in w.markets if not m["index"]]
    if P in ("sessions", "ledger", "logger", "callbacks", "clock", "index") and r.random() < (0.7 if P == "sessions" else 0.4):
        # built-in events of every type, on any session
        n = r.randint(1, 3)
        for k in range(n):
            si = r.randrange(len(w.sessions))
            s = w.sessions[si]
            kind = r.choice(["FundamentalPriceShock", "TradingHaltRule", "PriceLimitRule", "OrderMistakeShock"])
            name = f"EV{k}"
            tgt = r.choice(real)["name"]
            if kind == "FundamentalPriceShock":
                w.cfg[name] = {"class": kind, "target": tgt, "triggerTime": r.randrange(0, s["iterationSteps"] + 1),
                               "priceChangeRate": r.choice([-0.3, -0.1, 0.05, 0.2]), "shockTimeLength": r.randint(1, 3),
                               "enabled": r.random() < 0.9}
            elif kind == "TradingHaltRule":
                w.cfg[name] = {"class": kind, "targetMarkets": [tgt], "triggerChangeRate": r.choice([0.005, 0.01, 0.03, 0.1]),
                               "haltingTimeLength": r.randint(1, 6), "enabled": r.random() < 0.9}
            elif kind == "PriceLimitRule":
                # all real markets targeted unless a finding about non-target markets is being probed elsewhere
                tg = [m["name"] for m in w.markets] if r.random() < 0.8 else [tgt]
                w.cfg[name] = {"class": kind, "targetMarkets": tg, "triggerChangeRate": r.choice([0.01, 0.05, 0.2]),
                               "enabled": r.random() < 0.9}
            else:
                w.cfg[name] = {"class": kind, "target": tgt, "triggerTime": r.randrange(0, s["iterationSteps"] + 1),
                               "priceChangeRate": r.choice([-0.2, -0.05, 0.05, 0.3]), "orderVolume": r.randint(1, 20),
                               "orderTimeLength": r.choice([0, 1, 2, 3, 5]), "enabled": r.random() < 0.9}
            s.setdefault("events", []).append(name)
    if P == "hooks":
        gen_probes(r, w)
    if getattr(w, "arb_watch", False):
        # a stock arbitrage agent that only watches (threshold out of reach), with access to the index but not
        # to every component of it
        idx_m = [m for m in w.markets if m["index"]][0]
        acc = [idx_m["name"]] + list(idx_m["components"])
        if r.random() < 0.7 and len(idx_m["components"]) >= 2:
            acc.remove(r.choice(idx_m["components"]))
        w.add_group("ARBW", {"class": "ArbitrageAgent", "numAgents": r.randint(1, 2), "markets": acc, "cashAmount": 100000,
                             "assetVolume": 100, "orderVolume": 1, "orderThresholdPrice": 1e9})
    if P == "index" and r.random() < 0.15 and not getattr(w, "arb_watch", False):
        comps = sorted({c for m in w.markets if m["index"] for c in m["components"]})
        if comps:
            # a user-written share issuance on a component, at the end of some step
            w.probes["ISS"] = {"hooks": [{"kind": "market", "before": False, "times": None}],
                               "issue": {"market": r.choice(comps), "add": r.choice([1, 50, 1000, 7000]),
                                         "at": r.randrange(0, max(1, w.total_steps()))}}
            w.cfg["ISS"] = {"class": "ProbeEvent"}
            w.sessions[0].setdefault("events", []).append("ISS")
    if P in ("callbacks", "ledger", "logger"):
        add_user_rules(r, w, p_rewrite=0.08, owner=(P == "callbacks"))
    if P == "callbacks" and r.random() < 0.06 and w.scripted:
        # one forged entry (another agent's id) inside an otherwise genuine list: the whole list must be refused
        hf = [a for a in w.scripted if a["hft"]] or w.scripted
        victim = r.choice(hf)
        turns = w.scripts.get(victim["name"])
        if turns:
            pos = r.randrange(len(turns))
            mk = w.markets[0]
            good = gen_turn(r, w, victim["markets"], 0.0, 0.0, 0.0, 0.3, False, 2) or []
            op = {"k": "spoof", "m": 0, "side": r.choice("bs"), "px": {"mode": "abs", "v": mk["p0"]}, "vol": 1, "nth": r.randrange(5)}
            where = r.randrange(len(good) + 1)
            turns[pos] = good[:where] + [op] + good[where:]
    if P == "logger" and len(w.sessions) >= 2 and r.random() < 0.15:
        w.probes["SWP"] = {"hooks": [{"kind": "session", "before": True, "times": None}],
                           "sweep": {"cancel": r.randint(0, 4), "quote": r.random() < 0.6, "buy": r.random() < 0.5}}
        w.cfg["SWP"] = {"class": "ProbeEvent"}
        r.choice(w.sessions[1:]).setdefault("events", []).append("SWP")
    if P in ("callbacks", "ledger") and r.random() < 0.08:
        # a user-written circuit breaker: switches matching off from inside an after-fill hook
        w.probes["BRK"] = {"hooks": [{"kind": "execution", "before": False, "times": None},
                                     {"kind": "market", "before": True, "times": None}],
                           "breaker": {"after": r.randint(1, 3), "restore": r.random() < 0.5}}
        w.cfg["BRK"] = {"class": "ProbeEvent"}
        r.choice(w.sessions).setdefault("events", []).append("BRK")
    if len(w.sessions) >= 2 and r.random() < 0.2:
        # the same event entry listed in two sessions (two instances of one configuration)
        src = [s_ for s_ in w.sessions if s_.get("events")]
        if src:
            ev = r.choice(r.choice(src)["events"])
            tgt_s = r.choice(w.sessions)
            if ev not in tgt_s.get("events", []):
                tgt_s.setdefault("events", []).append(ev)


def n_inst_one(w: World, name: str) -> bool:
    return True


def gen_probes(r: random.Random, w: World) -> None:
    total = w.total_steps()
    kinds = [("order", True), ("order", False), ("cancel", True), ("cancel", False), ("execution", False),
             ("session", True), ("session", False), ("market", True), ("market", False)]
    starts = []
    acc = 0
    for s in w.sessions:
        starts.append(acc)
        acc += s["iterationSteps"]
    for k in range(r.randint(1, 6)):
        name = f"PR{k}"
        hooks = []
        for kind, before in r.sample(kinds, r.randint(1, 6)):
            u = r.random()
            if u < 0.27:
                times = None
            elif u < 0.3:
                times = []  # an empty time list: never
            elif u < 0.45:
                times = [r.randrange(0, total + 2)]
            elif u < 0.65:
                a = r.randrange(0, total + 1)
                times = list(range(a, min(total + 2, a + r.randint(1, 8))))
            elif u < 0.8:
                times = sorted(r.sample(range(0, total + 3), min(total + 3, r.randint(2, 6))))
            elif u < 0.9:
                # session boundaries: first / last step times
                times = sorted(set(starts + [x - 1 for x in starts if x > 0] + [total - 1, total]))
            else:
                times = [total + 5, total + 50]  # never reached
            if times and r.random() < 0.15:
                # a time list with a repeated entry
                times = times + [r.choice(times)]
                r.shuffle(times)
            h = {"kind": kind, "before": before, "times": times}
            if kind == "market":
                v = r.random()
                if v < 0.25:
                    h["cls"] = r.choice(["Market", "IndexMarket", "TapMarket", "TapIndexMarket"])
                elif v < 0.5:
                    h["inst"] = r.choice(w.markets)["name"]
                elif v < 0.6:
                    h["cls"] = r.choice(["Market", "IndexMarket"])
                    h["inst"] = r.choice(w.markets)["name"]
            hooks.append(h)
        spec = {"hooks": hooks}
        if r.random() < 0.25:
            spec["alter"] = r.choice([{"f": 1.01}, {"f": 0.97}, {"d": 0.3}, {"f": 1.0}])
        if r.random() < 0.12 and any(h["kind"] == "execution" for h in hooks):
            spec["breaker"] = {"after": r.randint(1, 3), "restore": r.random() < 0.5}
        trig = [t_ for t_, k_ in (("order_after", ("order", False)), ("execution", ("execution", False)))
                if any((h["kind"], h["before"]) == k_ and h["times"] is None for h in hooks)]
        if trig and r.random() < 0.2 and n_inst_one(w, name):
            have = {(h["kind"], h["before"]) for h in hooks}
            free = [k_ for k_ in (("order", True), ("cancel", True), ("cancel", False), ("execution", False), ("order", False)) if k_ not in have]
            if free:
                k_ = r.choice(free)
                spec["arm"] = {"trigger": r.choice(trig), "nth": r.randint(1, 6),
                               "hook": {"kind": k_[0], "before": k_[1],
                                        "times": None if r.random() < 0.7 else sorted(r.sample(range(total + 2), min(total + 2, r.randint(1, 5))))}}
        w.probes[name] = spec
        w.cfg[name] = {"class": "ProbeEvent"}
        si = r.randrange(len(w.sessions))
        w.sessions[si].setdefault("events", []).append(name)
    if r.random() < 0.03 and w.probes:
        # one hook object returned twice by hook_registration: registration must be refused
        victim = r.choice(sorted(w.probes))
        if w.probes[victim]["hooks"]:
            w.probes[victim]["dup_hook"] = r.randint(1, 5)
            w.extra = {"expect_setup_error": {"kind": "dup_hook", "types": ["ValueError"], "property": "C13"}}


# ---------------------------------------------------------------------- rule-event profiles (C14, C15, C16)
def gen_rules(r: random.Random, profile: str) -> Dict[str, Any]:
    w = World(r)
    P = profile
    if P == "shocks":
        n = r.randint(2, 4)
        for i in range(n):
            tick = r.choice([1.0, 1.0, 0.5, 0.1])
            w.add_market(f"M{i}", tick, float(r.choice([100, 300, 50])),
                         vol=r.choice([0.0, 0.0, 0.005, 0.02]), drift=r.choice([0.0, 0.0, 0.001, -0.003]),
                         price_key=r.choice(["marketPrice", "fundamentalPrice"]))
        w.add_scripted("SA", r.randint(2, 5), False)
        if r.random() < 0.4:
            w.add_scripted("SH", r.randint(1, 2), True)
        for i in range(r.randint(1, 3)):
            w.add_session(r.randint(2, 9), r.random() < 0.9, r.random() < 0.8,
                          max_normal=r.choice([2, 3, 6]), max_hft=2, rate=r.choice([1.0, 0.5]))
        fill_scripts(r, w, p_empty=r.choice([0.1, 0.3]), p_cancel=0.1, p_market=0.05, p_ttl=0.3, max_ops=4)
        k = 0
        for _ in range(r.randint(1, 4)):
            si = r.randrange(len(w.sessions))
            s = w.sessions[si]
            name = f"EV{k}"
            k += 1
            tgt = r.choice(w.markets)["name"]
            if r.random() < 0.55:
                w.cfg[name] = {"class": "FundamentalPriceShock", "target": tgt,
                               "triggerTime": r.randrange(0, s["iterationSteps"] + 3),
                               "priceChangeRate": r.choice([-0.5, -0.1, -0.01, 0.01, 0.2, 0.5]),
                               "shockTimeLength": r.randint(1, 4), "enabled": r.random() < 0.85}
                if r.random() < 0.2:
                    del w.cfg[name]["shockTimeLength"]
            else:
                w.cfg[name] = {"class": "OrderMistakeShock", "target": tgt,
                               "triggerTime": r.randrange(0, s["iterationSteps"]),
                               "priceChangeRate": r.choice([-0.3, -0.05, 0.0, 0.05, 0.4]),
                               "orderVolume": r.randint(1, 50), "orderTimeLength": r.choice([0, 1, 1, 2, 3, 4, 6]),
                               "enabled": r.random() < 0.85}
            s.setdefault("events", []).append(name)
        if r.random() < 0.06:
            w.nolog = True
        # shocks landing on the last step of a generation chunk / storage chunk need small chunks in short runs
        w.knobs["generation_chunk"] = r.choice([None, 2, 3, 4, 5, 7])
        w.knobs["storage_chunk"] = r.choice([None, None, 3, 5])
        add_user_rules(r, w, p_bystander=0.25)
        return w.scenario()
    if P == "limit":
        n = r.randint(2, 4)
        for i in range(n):
            tick = r.choice([1.0, 0.5, 0.3, 10.0, 0.1])
            p0 = float(round(r.choice([100, 300, 1000, 333, 127, 301.5]) / tick) * tick)  # band edges need not be whole numbers
            w.add_market(f"M{i}", tick, p0)
        names = [m["name"] for m in w.markets]
        rate = r.choice([0.01, 0.05, 0.1, 0.3]) if r.random() < 0.93 else r.choice([0.0, 1.0, 1.5])
        all_targets = r.random() < 0.35
        targets = names if all_targets else r.sample(names, r.randint(1, n - 1))
        w.add_scripted("SA", r.randint(2, 5), False)
        if r.random() < 0.4:
            w.add_scripted("SH", 1, True)
        ns = r.randint(1, 3)
        dense = r.random() < 0.04  # hundreds of clipped orders through one rule instance
        for i in range(ns):
            w.add_session(r.randint(2, 10) if not dense else r.randint(60, 140), True, r.random() < 0.8,
                          max_normal=r.choice([2, 3, 6]) if not dense else 6, max_hft=2, rate=1.0)
        si = r.randrange(ns)
        w.cfg["PL"] = {"class": "PriceLimitRule", "targetMarkets": targets, "triggerChangeRate": rate,
                       "enabled": r.random() < 0.9}
        w.sessions[si].setdefault("events", []).append("PL")
        if r.random() < 0.2:
            w.cfg["PL2"] = {"class": "PriceLimitRule", "targetMarkets": r.sample(names, r.randint(1, n)) if all_targets else targets,
                            "triggerChangeRate": r.choice([0.02, 0.2]), "enabled": True}
            w.sessions[r.randrange(ns)].setdefault("events", []).append("PL2")
        steps = w.total_steps()
        facs = [1 + rate, 1 - rate, 1 + rate * (1 + 1e-6), 1 - rate * (1 + 1e-6), 1 + rate * (1 - 1e-6), 1 - rate * (1 - 1e-6),
                1 + 2 * rate, 1 - 2 * rate, 1 + rate / 2, 1 - rate / 2, 1.0, 0.3, 3.0, 1 + rate * 1.01, 1 - rate * 0.99]
        if r.random() < 0.5:
            facs += [0.0, -0.0, -0.2]  # a price of exactly zero / a negative price: accepted with a warning only
        for a in w.scripted:
            turns = []
            for _ in range(steps * (2 if a["hft"] else 1) + 2):
                if r.random() < (0.25 if not dense else 0.02):
                    turns.append([])
                    continue
                ops = []
                for _ in range(r.randint(1, 3)):
                    mi = r.randrange(len(a["markets"]))
                    u = r.random()
                    if u < 0.1:
                        ops.append({"k": "market", "m": mi, "side": r.choice("bs"), "vol": r.randint(1, 3)})
                    elif u < 0.2:
                        ops.append({"k": "cancel", "m": mi, "ref": "live", "nth": r.randrange(6)})
                    else:
                        ops.append({"k": "limit", "m": mi, "side": r.choice("bs"),
                                    "px": {"mode": "relp0", "f": r.choice(facs)}, "vol": r.randint(1, 4),
                                    **({"ttl": r.randint(1, 5)} if r.random() < 0.4 else {}),
                                    **({"typ": r.choice(["ip", "np"])} if r.random() < 0.08 else {})})
                turns.append(ops)
            w.scripts[a["name"]] = turns
        add_user_rules(r, w, p_bystander=0.25)
        return w.scenario()
    if P == "halt" and r.random() < 0.05:
        # a rally far beyond +100% under a rule with a large rate: the moving line passes 100% of the time-0 price
        p0 = float(r.choice([100, 300]))
        w.add_market("M0", 1.0, p0)
        w.add_scripted("SA", 2, False)
        rate = r.choice([0.4, 0.6])
        path = [1.1, 1.0 + rate + 0.05, 1.0 + rate + 0.1, 1.0 + 2 * rate + 0.05, 1.0 + 2 * rate + 0.1,
                min(1.0 + 3 * rate - 0.1, 2.1), 1.0 + 3 * rate - 0.05, 1.0 + 3 * rate + 0.05, 1.0 + 3 * rate + 0.1, 1.0 + 4 * rate - 0.05]
        w.add_session(len(path) * 3 + 4, True, True, max_normal=2, max_hft=1, rate=1.0)
        w.cfg["TH0"] = {"class": "TradingHaltRule", "targetMarkets": ["M0"], "triggerChangeRate": rate,
                        "haltingTimeLength": r.randint(1, 2), "enabled": True}
        w.sessions[0].setdefault("events", []).append("TH0")
        seller, buyer = [], []
        for f_ in path:
            for side, turns in (("s", seller), ("b", buyer)):
                turns.append([{"k": "limit", "m": 0, "side": side, "px": {"mode": "relp0", "f": f_}, "vol": 1}])
            for turns in (seller, buyer):  # room for the halts in between
                turns.append([])
                turns.append([])
        w.scripts[w.scripted[0]["name"]] = seller + [[] for _ in range(6)]
        w.scripts[w.scripted[1]["name"]] = buyer + [[] for _ in range(6)]
        return w.scenario()
    if P == "halt":
        n = r.randint(1, 3)
        for i in range(n):
            w.add_market(f"M{i}", r.choice([1.0, 0.5, 0.1, 0.01]), float(r.choice([100, 300, 1000])))
        names = [m["name"] for m in w.markets]
        w.add_scripted("SA", r.randint(2, 5), False)
        if r.random() < 0.4:
            w.add_scripted("SH", r.randint(1, 2), True)
        ns = r.randint(1, 4)
        for i in range(ns):
            w.add_session(r.randint(2, 16), r.random() < 0.95, r.random() < 0.7, max_normal=r.choice([2, 3, 6]),
                          max_hft=2, rate=r.choice([1.0, 0.5]))
        if not any(s["withOrderExecution"] for s in w.sessions):
            w.sessions[-1]["withOrderExecution"] = True
        exec_sessions = [i for i, s in enumerate(w.sessions) if s["withOrderExecution"]]
        k = 0
        used = set()
        for _ in range(r.randint(1, 2)):
            two = r.random() < 0.15 and n >= 2
            tg = r.sample(names, 2) if two else [r.choice(names)]
            if any(t in used for t in tg) and r.random() < 0.8:
                continue
            used.update(tg)
            name = f"TH{k}"
            k += 1
            w.cfg[name] = {"class": "TradingHaltRule", "targetMarkets": tg,
                           "triggerChangeRate": r.choice([0.005, 0.01, 0.02, 0.05, 0.1]) if r.random() < 0.95 else 0.0,
                           "haltingTimeLength": r.randint(1, 8) if r.random() < 0.95 else 0, "enabled": r.random() < 0.92}
            si = r.choice(exec_sessions) if r.random() < 0.85 else r.randrange(ns)
            w.sessions[si].setdefault("events", []).append(name)
        steps = w.total_steps()
        step_sizes = [0.0, 0.002, 0.004, 0.008, 0.012, 0.02, 0.03, 0.06]
        for a in w.scripted:
            turns = []
            bias = r.choice([-1, 1, 1, 0])
            for _ in range(steps * (2 if a["hft"] else 1) + 2):
                if r.random() < 0.2:
                    turns.append([])
                    continue
                ops = []
                for _ in range(r.randint(1, 3)):
                    mi = r.randrange(len(a["markets"]))
                    u = r.random()
                    d = r.choice(step_sizes) * (bias if bias and r.random() < 0.7 else r.choice([-1, 1]))
                    if u < 0.12:
                        ops.append({"k": "market", "m": mi, "side": r.choice("bs"), "vol": r.randint(1, 3)})
                    elif u < 0.2:
                        ops.append({"k": "cancel", "m": mi, "ref": "live", "nth": r.randrange(6)})
                    else:
                        ops.append({"k": "limit", "m": mi, "side": r.choice("bs"), "px": {"mode": "rel", "f": 1.0 + d},
                                    "vol": r.randint(1, 4), **({"ttl": r.randint(1, 4)} if r.random() < 0.5 else {})})
                turns.append(ops)
            w.scripts[a["name"]] = turns
        if r.random() < 0.06 and w.scripted:
            # a price crash to exactly zero: a stub bid below one tick (accepted at 0.0) and a market sell that
            # sweeps the whole bid side (the round is priced at the last matched resting order)
            a0 = w.scripted[0]
            turns = w.scripts[a0["name"]]
            mk = [m for m in w.markets if m["name"] == a0["markets"][0]][0]
            i0 = r.randrange(0, max(1, len(turns) // 2))
            i1 = r.randrange(i0 + 1, len(turns)) if i0 + 1 < len(turns) else i0
            turns[i0] = turns[i0] + [{"k": "limit", "m": 0, "side": "b", "px": {"mode": "abs", "v": 0.4 * mk["tick"]}, "vol": 3}]
            turns[i1] = turns[i1] + [{"k": "market", "m": 0, "side": "s", "vol": 80}]
        add_user_rules(r, w, p_bystander=0.25)
        return w.scenario()
    raise ValueError(P)


# ---------------------------------------------------------------------- C20: built-in agents under probe
def _jr(r: random.Random, kind: str):
    """JsonRandom spec of a non-negative weight."""
    u = r.random()
    if kind == "weight":
        if u < 0.25:
            return {"const": [0.0]}
        if u < 0.5:
            return {"const": [r.choice([0.5, 1.0, 3.0])]}
        if u < 0.75:
            return {"expon": [r.choice([0.5, 1.0, 2.0])]}
        return [0.1, 2.0]
    raise ValueError(kind)


def gen_special_books(r: random.Random) -> Dict[str, Any]:
    """books whose derived quantities take special values: a mid price of exactly zero (a negative bid against
    the mirrored ask), a one-sided book, quotes straddling the market price - in front of a market maker, in a
    session without matching so that the market price stays where it was configured."""
    w = World(r)
    tick = r.choice([1.0, 0.5])
    p0 = float(r.choice([100, 300]))
    d = {"class": "TapMarket", "tickSize": tick, "marketPrice": p0, "fundamentalPrice": p0 * r.choice([1.0, 1.02])}
    w.cfg["M0"] = d
    w.cfg["simulation"]["markets"].append("M0")
    w.markets.append({"name": "M0", "tick": tick, "p0": p0, "index": False})
    w.add_scripted("SA", 2, False)
    w.add_group("MM", {"class": "ProbeMM", "numAgents": r.randint(1, 2), "markets": ["M0"], "cashAmount": 100000,
                       "assetVolume": 100, "targetMarket": "M0", "netInterestSpread": r.choice([0.01, 0.02, 0.05]),
                       **({"orderTimeLength": r.choice([1, 3])} if r.random() < 0.5 else {})})
    w.add_session(r.randint(2, 5), True, False, max_normal=4, max_hft=1, rate=1.0)
    if r.random() < 0.5:
        w.add_session(r.randint(2, 4), True, True, max_normal=4, max_hft=1, rate=1.0)
    k = r.choice([1, 2, 4, 8]) * tick
    kind = r.choice(["zero_mid", "zero_mid", "one_sided", "straddle"])
    if kind == "zero_mid":
        first = [{"k": "limit", "m": 0, "side": "b", "px": {"mode": "abs", "v": -k}, "vol": 5},
                 {"k": "limit", "m": 0, "side": "s", "px": {"mode": "abs", "v": k}, "vol": 5}]
    elif kind == "one_sided":
        first = [{"k": "limit", "m": 0, "side": r.choice("bs"), "px": {"mode": "abs", "v": p0 + k}, "vol": 5}]
    else:
        first = [{"k": "limit", "m": 0, "side": "b", "px": {"mode": "abs", "v": p0 - 3 * k}, "vol": 5},
                 {"k": "limit", "m": 0, "side": "s", "px": {"mode": "abs", "v": p0 + k}, "vol": 5}]
    steps = w.total_steps()
    for i, a in enumerate(w.scripted):
        w.scripts[a["name"]] = [first if i == 0 else []] + [[] for _ in range(steps + 1)]
    return w.scenario()


def gen_rates(r: random.Random, profile: str = "rates") -> Dict[str, Any]:
    """many batches under a very small high-frequency rate (below one basis point): enough of them over the whole
    batch of runs for the exact binomial test of the C09 check to tell the configured rate from zero."""
    w = World(r)
    w.add_market("M0", 1.0, 300.0)
    w.add_scripted("SA", 3, False)
    w.add_scripted("SH", 1, True)
    steps = 400
    w.add_session(steps, True, False, max_normal=3, max_hft=1, rate=0.00009)
    for a in w.scripted:
        if a["hft"]:
            w.scripts[a["name"]] = [[] for _ in range(steps * 3 + 2)]
        else:
            w.scripts[a["name"]] = [[{"k": "limit", "m": 0, "side": r.choice("bs"), "px": {"mode": "abs", "v": 300.0 + r.choice([-20, 20])},
                                      "vol": 1, "ttl": 1}] for _ in range(steps + 2)]
    return w.scenario()


def gen_big_index(r: random.Random) -> Dict[str, Any]:
    """an index over dozens of components (a real index has hundreds) in front of an arbitrage agent."""
    w = World(r)
    n = r.choice([75, 77, 91, 93, 99, 105, 117, 123, 60, 130])
    for i in range(n):
        d = {"class": "TapMarket", "tickSize": 1.0, "marketPrice": 300.0, "outstandingShares": 1000}
        w.cfg[f"M{i}"] = d
        w.cfg["simulation"]["markets"].append(f"M{i}")
        w.markets.append({"name": f"M{i}", "tick": 1.0, "p0": 300.0, "index": False})
    comps = [f"M{i}" for i in range(n)]
    w.add_index("IDX", 1.0, 300.0 + r.choice([5.0, -5.0, 2.0]), comps)
    w.add_scripted("SA", 1, False, markets=["M0", "IDX"])
    w.add_group("ARB", {"class": "ProbeArb", "numAgents": 1, "markets": comps + ["IDX"], "cashAmount": 10 ** 9,
                        "assetVolume": 1000, "orderVolume": r.choice([1, 2, 3, 10]), "orderThresholdPrice": 1.0})
    w.add_session(2, True, r.random() < 0.5, max_normal=1, max_hft=1, rate=1.0)
    w.scripts[w.scripted[0]["name"]] = [[{"k": "limit", "m": 0, "side": "b", "px": {"mode": "abs", "v": 290.0}, "vol": 1}],
                                        [{"k": "limit", "m": 0, "side": "s", "px": {"mode": "abs", "v": 310.0}, "vol": 1}], [], []]
    return w.scenario()


def gen_agents(r: random.Random, profile: str = "agents") -> Dict[str, Any]:
    if r.random() < 0.03:
        return gen_special_books(r)
    if r.random() < 0.012:
        return gen_big_index(r)
    w = World(r)
    with_index = r.random() < 0.6
    if with_index:
        n = r.randint(2, 4)
        sh = r.choice([100, 1000])
        for i in range(n):
            p0 = float(r.choice([100, 300, 400]))
            d = {"class": "TapMarket", "tickSize": r.choice([1.0, 0.1, 0.01]), "marketPrice": p0,
                 "fundamentalPrice": p0 * r.choice([1.0, 1.02, 0.97]), "outstandingShares": sh,
                 "fundamentalVolatility": r.choice([0.0, 0.002, 0.01]), "fundamentalDrift": r.choice([0.0, 0.001])}
            w.cfg[f"M{i}"] = d
            w.cfg["simulation"]["markets"].append(f"M{i}")
            w.markets.append({"name": f"M{i}", "tick": d["tickSize"], "p0": p0, "index": False})
        comps = [f"M{i}" for i in range(n)]
        avg = sum(w.cfg[c]["marketPrice"] for c in comps) / n
        gap = r.choice([0.0, 0.5, 0.99, 1.0, 1.01, 3.0, -0.99, -1.0, -1.01, -4.0])
        w.add_index("IDX", r.choice([1.0, 0.01]), avg + gap, comps)
        if n >= 3 and r.random() < 0.35:
            # a second index over fewer of the same components: an arbitrage agent that sees both
            sub = r.sample(comps, 2)
            avg2 = sum(w.cfg[c]["marketPrice"] for c in sub) / 2
            w.add_index("IDX2", r.choice([1.0, 0.01]), avg2 + r.choice([0.0, 1.01, 3.0, -1.01, -4.0]), sub)
    else:
        for i in range(r.randint(1, 3)):
            p0 = float(r.choice([100, 300, 1000]))
            d = {"class": "TapMarket", "tickSize": r.choice([1.0, 0.5, 0.01, 0.00001]), "marketPrice": p0,
                 "fundamentalPrice": p0 * r.choice([1.0, 1.05, 0.9]),
                 "fundamentalVolatility": r.choice([0.0, 0.002, 0.02]), "fundamentalDrift": r.choice([0.0, 0.002, -0.002])}
            w.cfg[f"M{i}"] = d
            w.cfg["simulation"]["markets"].append(f"M{i}")
            w.markets.append({"name": f"M{i}", "tick": d["tickSize"], "p0": p0, "index": False})
    plain = [m["name"] for m in w.markets if not m["index"]]
    allm = [m["name"] for m in w.markets]
    w.add_scripted("SA", r.randint(1, 4), False)
    if r.random() < 0.3:
        w.add_scripted("SH", 1, True)

    def fcn_settings(cls):
        wts = [_jr(r, "weight") for _ in range(3)]
        if all(isinstance(x, dict) and x.get("const") == [0.0] for x in wts):
            wts[r.randrange(3)] = {"const": [1.0]}
        mt = r.choice([None, "fixed", "fixed", "normal"])
        d = {"class": cls, "numAgents": r.randint(1, 4), "markets": r.sample(allm, r.randint(1, len(allm))) if cls == "ProbeFCN" else (allm if len(allm) > 1 else allm),
             "cashAmount": 10000, "assetVolume": [10, 60],
             "fundamentalWeight": wts[0], "chartWeight": wts[1], "noiseWeight": wts[2],
             "noiseScale": r.choice([0.0, 0.001, 0.02]), "timeWindowSize": r.choice([1, 2, 5, [3, 12], {"const": [7]}]),
             # margin exactly 1 makes a fixed-margin FCN agent bid at price 0 (documented range is 0 <= k <= 1, but a
             # trade at price 0 is outside every market state the statement quantifies over): stay below 1
             "orderMargin": (r.choice([0.0, 0.9, 0.05, [0.0, 0.1]]) if mt != "normal" else r.choice([0.1, 1.0, [0.0, 2.0]]))}
        if mt:
            d["marginType"] = mt
        if r.random() < 0.4:
            d["meanReversionTime"] = r.choice([1, 10, [5, 50]])
        return d

    groups = []
    if r.random() < 0.8:
        w.add_group("FCN", fcn_settings("ProbeFCN"))
        groups.append("FCN")
    if r.random() < 0.5:
        w.add_group("MSF", fcn_settings("ProbeMSFCN"))
    if r.random() < 0.6:
        tgt = r.choice(plain)
        w.add_group("MM", {"class": "ProbeMM", "numAgents": r.randint(1, 2), # a market maker takes max bid / min ask over *all* its accessible markets (documented), so the
                           # other accessible markets must trade at the price level of its target
                           "markets": r.choice([[tgt], [tgt] + [m["name"] for m in w.markets if m["name"] != tgt and not m["index"]
                                                                and m["p0"] == w.cfg[tgt]["marketPrice"]]]),
                           "cashAmount": 100000, "assetVolume": 100, "targetMarket": tgt,
                           "netInterestSpread": r.choice([0.0, 0.01, 0.05, [0.001, 0.03]]),
                           **({"orderTimeLength": r.choice([1, 3, [2, 6]])} if r.random() < 0.6 else {})})
    if with_index and r.random() < 0.85:
        arb_markets = list(allm)
        if r.random() < 0.12:
            # an arbitrageur that sees the index but not every component of it
            arb_markets.remove(r.choice(plain))
        w.add_group("ARB", {"class": "ProbeArb", "numAgents": r.randint(1, 2), "markets": arb_markets, "cashAmount": 100000,
                            "assetVolume": 100, "orderVolume": r.randint(1, 3),
                            "orderThresholdPrice": r.choice([1.0, 0.5, 2.0, 0.0]),
                            **({"orderTimeLength": r.randint(1, 4)} if r.random() < 0.6 else {})})
    if r.random() < 0.3:
        w.add_group("TST", {"class": "ProbeTest", "numAgents": r.randint(1, 2), "markets": allm, "cashAmount": 100000, "assetVolume": 100})
    for i in range(r.randint(1, 3)):
        w.add_session(r.randint(3, 15), True, r.random() < 0.8, max_normal=r.choice([2, 4, 8]), max_hft=r.choice([1, 3]),
                      rate=r.choice([1.0, 0.5]))
    if r.random() < 0.1:
        w.probes["AUD"] = {"hooks": [{"kind": "market", "before": False, "times": None}], "audit": True}
        w.cfg["AUD"] = {"class": "ProbeEvent"}
        w.sessions[0].setdefault("events", []).append("AUD")
    if with_index and r.random() < 0.3:
        w.cfg["TH"] = {"class": "TradingHaltRule", "targetMarkets": [r.choice(plain)], "triggerChangeRate": 0.01,
                       "haltingTimeLength": r.randint(2, 5), "enabled": True}
        w.sessions[-1].setdefault("events", []).append("TH")
    # scripted agents shape the state: trending / gapped prices, one-sided books
    steps = w.total_steps()
    for a in w.scripted:
        turns = []
        trend = r.choice([-1, 0, 1])
        for _ in range(steps * (2 if a["hft"] else 1) + 2):
            if r.random() < 0.3:
                turns.append([])
                continue
            ops = []
            for _ in range(r.randint(1, 2)):
                mi = r.randrange(len(a["markets"]))
                d = r.choice([0.0, 0.003, 0.01, 0.03]) * (trend if trend and r.random() < 0.7 else r.choice([-1, 1]))
                u = r.random()
                if u < 0.15:
                    ops.append({"k": "market", "m": mi, "side": r.choice("bs"), "vol": r.randint(1, 3)})
                elif u < 0.25:
                    ops.append({"k": "cancel", "m": mi, "ref": "live", "nth": r.randrange(5)})
                else:
                    ops.append({"k": "limit", "m": mi, "side": r.choice("bs"), "px": {"mode": "rel", "f": 1.0 + d},
                                "vol": r.randint(1, 3), **({"ttl": r.randint(1, 4)} if r.random() < 0.5 else {})})
            turns.append(ops)
        w.scripts[a["name"]] = turns
    return w.scenario()


# ---------------------------------------------------------------------- scale: sample-sized worlds
def gen_scale(r: random.Random, profile: str = "scale") -> Dict[str, Any]:
    """worlds of the size of the shipped samples: dozens to a hundred built-in agents, hundreds of steps
    (several storage/generation chunks of 100), long time-to-live, next to a few scripted agents."""
    w = World(r)
    n_m = r.choice([1, 1, 2])
    for i in range(n_m):
        w.add_market(f"M{i}", r.choice([0.00001, 0.01, 1.0]), 300.0, vol=r.choice([0.0, 0.001, 0.005]), drift=0.0,
                     shares=25000)
    names = [m["name"] for m in w.markets]
    w.add_scripted("SA", r.randint(1, 4), False, cash=10 ** 9, asset=10 ** 6)
    if r.random() < 0.5:
        w.add_scripted("SH", 1, True, cash=10 ** 9, asset=10 ** 6)
    d = dict(FCN_SETTINGS)
    d.update({"numAgents": r.choice([30, 60, 100]), "markets": names, "timeWindowSize": r.choice([[100, 200], [20, 60]]),
              "noiseScale": 0.001, "orderMargin": [0.0, 0.1], "chartWeight": {"expon": [0.0]} if r.random() < 0.5 else {"expon": [0.3]}})
    w.add_group("FCN", d)
    if r.random() < 0.4:
        w.add_group("MM", {"class": "MarketMakerAgent", "numAgents": 1, "markets": [names[0]], "cashAmount": 10 ** 7, "assetVolume": 1000,
                           "targetMarket": names[0], "netInterestSpread": 0.02, "orderTimeLength": r.choice([2, 20])})
    warm = r.choice([0, 50, 100])
    if warm:
        w.add_session(warm, True, False, max_normal=r.choice([1, 3]), max_hft=1, rate=1.0)
    w.add_session(r.choice([150, 300, 600]), True, True, max_normal=r.choice([1, 1, 2, 3]), max_hft=r.choice([1, 2]), rate=r.choice([1.0, 0.3]))
    if r.random() < 0.3:
        w.add_session(r.choice([50, 120]), True, True, max_normal=2, max_hft=1, rate=1.0)
    steps = w.total_steps()
    for a in w.scripted:
        turns = []
        for _ in range(steps * (2 if a["hft"] else 1) + 2):
            if r.random() < 0.85:
                turns.append([])
                continue
            ops = []
            for _ in range(r.randint(1, 2)):
                mi = r.randrange(len(a["markets"]))
                u = r.random()
                if u < 0.2:
                    ops.append({"k": "cancel", "m": mi, "ref": r.choice(["live", "live", "any"]), "nth": r.randrange(50)})
                elif u < 0.3:
                    ops.append({"k": "market", "m": mi, "side": r.choice("bs"), "vol": r.choice([1, 5, 50, 2000])})
                else:
                    ops.append({"k": "limit", "m": mi, "side": r.choice("bs"), "px": {"mode": "rel", "f": 1.0 + r.choice([-1, 1]) * r.choice([0.0, 0.002, 0.01, 0.05])},
                                "vol": r.choice([1, 3, 40, 10 ** 4]), **({"ttl": r.choice([1, 10, 150, 400])} if r.random() < 0.6 else {})})
            turns.append(ops)
        w.scripts[a["name"]] = turns
    if r.random() < 0.4:
        tgt = names[0]
        w.cfg["EVS"] = {"class": "FundamentalPriceShock", "target": tgt, "triggerTime": r.randrange(0, 100), "priceChangeRate": r.choice([-0.1, 0.1]),
                        "shockTimeLength": r.randint(1, 3), "enabled": True}
        w.sessions[-1].setdefault("events", []).append("EVS")
    if r.random() < 0.3:
        w.cfg["EVH"] = {"class": "TradingHaltRule", "targetMarkets": [names[0]], "triggerChangeRate": 0.05, "haltingTimeLength": r.choice([10, 100]), "enabled": True}
        w.sessions[-1].setdefault("events", []).append("EVH")
    return w.scenario()


def gen_crowd(r: random.Random, profile: str = "crowd") -> Dict[str, Any]:
    """large populations (hundreds of mostly passive scripted agents) for the consultation rules."""
    w = World(r)
    many_markets = r.random() < 0.2
    basic_markets(r, w, 1 if not many_markets else r.choice([17, 33, 70]))
    n = r.choice([129, 130, 200, 257, 400, 700, 1100]) if not many_markets else r.choice([3, 10, 129])
    w.add_scripted("SA", n, False)
    nh = r.choice([0, 0, 2, 40, 150])
    if nh:
        w.add_scripted("SH", nh, True)
    for i in range(r.randint(1, 2)):
        w.add_session(r.randint(2, 8), True, r.random() < 0.7, max_normal=r.choice([1, 2, 5, n, n + 1]),
                      max_hft=r.choice([1, 2, nh, nh + 1]), rate=r.choice([1.0, 0.5, 0.0]))
    p_empty = r.choice([0.9, 0.98, 0.995, 1.0])
    fill_scripts(r, w, p_empty=p_empty, p_cancel=0.1, p_market=0.05, p_ttl=0.3, max_ops=2, hft_mult=2)
    return w.scenario()


# ---------------------------------------------------------------------- long clocks: stretched scenarios
def stretch(scn: Dict[str, Any], r: random.Random) -> Dict[str, Any]:
    """multiplies the clock of a scenario by k (sessions, trigger times, probe time lists, halting lengths)
    and spreads the scripted turns out with empty turns: the same activity over hundreds of steps, so that
    times beyond 100, 256 and several storage/generation chunks are reached cheaply."""
    k = r.choice([8, 15, 25, 40])
    cfg = scn["config"]
    sessions = cfg["simulation"]["sessions"]
    old_starts, new_starts = [], []
    a = b = 0
    align = r.choice([None, None, 50, 100, 128, 256])
    for s in sessions:
        old_starts.append(a)
        new_starts.append(b)
        a += s["iterationSteps"]
        n = s["iterationSteps"] * k + r.randrange(0, k)
        if align:
            # session boundaries on round numbers (multiples of 50/100/128/256), as in the shipped samples
            end = ((b + n + align - 1) // align) * align
            n = max(1, end - b)
        s["iterationSteps"] = n
        b += n
    total_old, total_new = a, b

    def map_time(t):
        # session boundaries map to session boundaries exactly
        if t == total_old:
            return total_new
        if t == total_old - 1:
            return total_new - 1
        for i in range(len(sessions)):
            if t == old_starts[i]:
                return new_starts[i]
            if i > 0 and t == old_starts[i] - 1:
                return new_starts[i] - 1
        # keep the session a time falls into; scale the offset inside it
        for i in range(len(sessions) - 1, -1, -1):
            if t >= old_starts[i]:
                off = (t - old_starts[i]) * k + r.randrange(0, k)
                return new_starts[i] + off
        return t * k

    for name, v in cfg.items():
        if not isinstance(v, dict):
            continue
        if isinstance(v.get("triggerTime"), int):
            v["triggerTime"] = v["triggerTime"] * k + r.randrange(0, k)
        if isinstance(v.get("haltingTimeLength"), int) and r.random() < 0.6:
            v["haltingTimeLength"] = v["haltingTimeLength"] * r.choice([1, k // 2, k])
        if isinstance(v.get("shockTimeLength"), int) and r.random() < 0.3:
            v["shockTimeLength"] = v["shockTimeLength"] + r.choice([0, 1, 100])
        for key in ("timeWindowSize", "orderTimeLength"):
            if key in v and r.random() < 0.5:
                kk = min(k, 16)
                if isinstance(v[key], int):
                    v[key] = v[key] * r.choice([1, kk])
                elif isinstance(v[key], list) and len(v[key]) == 2:
                    v[key] = [v[key][0] * kk, v[key][1] * kk]
    for name, spec in (scn.get("probes") or {}).items():
        for h in spec.get("hooks", []):
            if h.get("times") is not None:
                h["times"] = [map_time(t) for t in h["times"]]
    for name, turns in (scn.get("scripts") or {}).items():
        new = []
        for t in turns:
            for op in t:
                if isinstance(op.get("ttl"), int) and r.random() < 0.4:
                    op["ttl"] = op["ttl"] * r.choice([k, 2 * k, 5 * k])
            new.append(t)
            for _ in range(k - 1):
                new.append([])
        # shift the phase so that activity is not always on multiples of k
        scn["scripts"][name] = [[] for _ in range(r.randrange(0, k))] + new
    scn["knobs"] = {"storage_chunk": None, "generation_chunk": None}
    scn["stretched_by"] = k
    return scn


def gen_long(r: random.Random, profile: str) -> Dict[str, Any]:
    base, _, sub = profile.partition(":")
    if base == "world":
        scn = gen_world(r, sub)
    elif base == "rules":
        scn = gen_rules(r, sub)
    elif base == "agents":
        scn = gen_agents(r, "agents")
    else:
        raise ValueError(profile)
    return stretch(scn, r)
