"""vsim -- deterministic simulation harness for masanorihirano/pams (see /verif/DESIGN.md)."""
