"""Driver F: the real Fundamentals under a simulated clock (DESIGN.md 2.2, C12).

A minimal real world is built through SequentialRunner._setup (markets only, no agents); the op list
advances the clock through Simulator._update_times_on_markets (which is how pams queries the
fundamentals), changes parameters through the public Fundamentals API at the current time and shocks
prices through Market.change_fundamental_price.  The NumPy generator is either the real one or a
scripted standard-normal source installed through the randomness seam (Fundamentals._np_prng).
"""
import math
import random
from typing import Any, Dict, List, Optional

from . import env  # noqa: F401
from .drivers import classify_exception, new_result
from .harness import Ctx, make_classes
from .monitor import Monitor, close

import numpy as np  # noqa: E402
from pams.runners.sequential import SequentialRunner  # noqa: E402


class ScriptedNormal:
    """stand-in for numpy Generator.standard_normal: serves zero vectors, unit vectors e_j, 2 e_j and
    seeded arbitrary vectors, column by column, keyed by the absolute time of the column."""

    def __init__(self, fund, seed: int):
        self.f = fund
        self.seed = seed
        self.served: Dict[int, np.ndarray] = {}
        self.calls = 0

    def pattern(self, t: int, n: int) -> np.ndarray:
        z = np.zeros(n)
        if n == 0:
            return z
        k = t % (n + 3)
        if k == 0:
            return z
        if k <= n:
            z[k - 1] = 1.0
            return z
        if k == n + 1:
            z[(t // (n + 3)) % n] = 2.0
            return z
        r = random.Random(self.seed * 1000003 + t)
        return np.asarray([r.gauss(0.0, 1.0) for _ in range(n)])

    def standard_normal(self, size=None):
        n, length = size
        g = self.f._generated_until
        self.calls += 1
        out = np.zeros((n, length))
        for c in range(length):
            t = g + 1 + c
            z = self.pattern(t, n)
            out[:, c] = z
            self.served[t] = z
        return out


def run_F_direct(scn: Dict[str, Any], on) -> Dict[str, Any]:
    """the Fundamentals object used on its own (public API: add_market in any id order, remove_market and
    re-adding, set_correlation), with the scripted normal source: start value, positivity, exact zero-volatility
    paths and the covariance of one-step log-returns, indexed by market id."""
    from pams.fundamentals import Fundamentals
    res = new_result()
    mon = Monitor(on, "F")
    F = scn["f"]
    ids = [int(x) for x in F["direct_ids"]]
    params = {i: m for i, m in zip(ids, F["markets"])}
    res["phase"] = "run"
    try:
        f = Fundamentals(prng=random.Random(scn["runner_seed"]))
        order = list(ids)
        for i in order:
            m = params[i]
            # drifts are handed over as written (a literal 0 is a Python int)
            f.add_market(market_id=i, initial=float(m["initial"]), drift=m["drift"], volatility=float(m["vol"]))
        for i in F.get("readd", []):  # removed and added again: ends up last in registration order
            i = ids[int(i) % len(ids)]
            m = params[i]
            f.remove_market(market_id=i)
            f.add_market(market_id=i, initial=float(m["initial"]), drift=m["drift"], volatility=float(m["vol"]))
            mon.probe("market_removed_and_added_again")
        corr = {}
        for a, b, c in F.get("corr") or []:
            ia, ib = ids[a], ids[b]
            if params[ia]["vol"] == 0 or params[ib]["vol"] == 0 or ia == ib:
                continue
            f.set_correlation(market_id1=ia, market_id2=ib, corr=float(c))
            corr[(ia, ib)] = float(c)
        if (scn.get("knobs") or {}).get("generation_chunk") and hasattr(f, "_generate_chunk_size"):
            f._generate_chunk_size = int(scn["knobs"]["generation_chunk"])
        scripted = None
        if hasattr(f, "_np_prng") and hasattr(f, "_generated_until"):
            scripted = ScriptedNormal(f, scn["runner_seed"])
            f._np_prng = scripted
        V = sorted(i for i in ids if params[i]["vol"] != 0)
        T = int(F.get("steps", 40))
        prices = {i: [f.get_fundamental_price(market_id=i, time=t) for t in range(T + 1)] for i in ids}
        if sorted(ids) != ids:
            mon.probe("fundamentals_ids_not_ascending")
        A: Dict[int, Any] = {}
        for i in ids:
            p = prices[i]
            m = params[i]
            if p[0] != float(m["initial"]):
                mon.viol("C12", "initial_value", {"market": i, "got": p[0], "want": m["initial"]})
            for t, v in enumerate(p):
                if not (isinstance(v, float) and math.isfinite(v) and v > 0):
                    mon.viol("C12", "not_positive_finite", {"market": i, "t": t, "value": v})
                    break
                if m["vol"] == 0:
                    want = float(m["initial"]) * math.exp(float(m["drift"]) * t)
                    if not close(v, want, 1e-12 * max(1, t)):
                        mon.viol("C12", "zero_vol_path", {"market": i, "t": t, "got": v, "want": want})
                        break
            mon.stat("f_steps", T)
        if scripted is not None and V:
            for t in range(1, T + 1):
                z = scripted.served.get(t)
                if z is None or len(z) != len(V):
                    continue
                exc = np.asarray([math.log(prices[i][t] / prices[i][t - 1]) - float(params[i]["drift"]) for i in V])
                nz = np.flatnonzero(z)
                if len(nz) == 0:
                    if np.abs(exc).max(initial=0.0) > 1e-12:
                        mon.viol("C12", "drift_wrong", {"t": t, "excess_return_with_zero_noise": exc.tolist()})
                elif len(nz) == 1 and z[nz[0]] == 1.0:
                    A[int(nz[0])] = exc
                elif len(A) == len(V):
                    Mx = np.column_stack([A[j] for j in range(len(V))])
                    want = Mx @ z
                    if np.abs(want - exc).max() > 1e-9 * max(1.0, np.abs(want).max()):
                        mon.viol("C12", "not_linear_in_noise", {"t": t, "got": exc.tolist(), "want": want.tolist()})
            if len(A) == len(V):
                Mx = np.column_stack([A[j] for j in range(len(V))])
                got = Mx @ Mx.T
                D = np.diag([float(params[i]["vol"]) for i in V])
                C = np.eye(len(V))
                for (a, b), c in corr.items():
                    C[V.index(a), V.index(b)] = c
                    C[V.index(b), V.index(a)] = c
                want = D @ C @ D
                if np.abs(got - want).max() > 1e-9 * max(np.abs(want).max(), 1e-300):
                    mon.viol("C12", "covariance_wrong", {"ids_in_registration_order": order, "got": got.tolist(), "want": want.tolist(),
                                                         "corr": {f"{a}-{b}": c for (a, b), c in corr.items()}})
                mon.probe("scripted_covariance_checked")
                if corr:
                    mon.probe("scripted_covariance_with_correlation")
        mon.trace = [(i, tuple(prices[i][:8])) for i in ids]
        res["completed"] = True
    except Exception as e:
        res["error"] = classify_exception(e)
        if res["error"]["in_harness"]:
            raise
    res["violations"] = [v.as_dict() for v in mon.violations]
    res["stats"] = dict(mon.stats)
    res["probes"] = dict(mon.probes)
    res["n_events"] = mon.seq
    res["_mon"] = mon
    return res


def run_F(scn: Dict[str, Any], on, plugins=()) -> Dict[str, Any]:
    if (scn.get("f") or {}).get("direct_ids"):
        return run_F_direct(scn, on)
    res = new_result()
    mon = Monitor(on, "F")
    ctx = Ctx(scn, mon)
    classes = make_classes(ctx)
    F = scn["f"]
    n = len(F["markets"])
    cfg: Dict[str, Any] = {"simulation": {"markets": [f"M{i}" for i in range(n)], "agents": [],
                                          "sessions": [{"sessionName": 0, "iterationSteps": 1, "withOrderPlacement": False,
                                                        "withOrderExecution": False, "withPrint": False}]}}
    for i, m in enumerate(F["markets"]):
        cfg[f"M{i}"] = {"class": "TapMarket", "tickSize": 1.0, "fundamentalPrice": m["initial"],
                        "fundamentalDrift": m["drift"], "fundamentalVolatility": m["vol"]}
    if F.get("corr"):
        cfg["simulation"]["fundamentalCorrelations"] = {"pairwise": [[f"M{a}", f"M{b}", c] for a, b, c in F["corr"]]}
    runner = SequentialRunner(settings=cfg, prng=random.Random(scn["runner_seed"]), logger=None,
                              simulator_class=classes["TapSimulator"])
    for c in classes.values():
        runner.class_register(c)
    res["phase"] = "setup"
    try:
        runner._setup()
    except Exception as e:
        res["error"] = classify_exception(e)
        if res["error"]["in_harness"]:
            raise
        res["violations"] = []
        res["_mon"] = mon
        return res
    sim = runner.simulator
    f = sim.fundamentals
    mon.attach(sim, cfg["simulation"]["sessions"])
    O = FundOracle(mon, sim, F, scn)
    scripted = None
    if scn.get("scripted_normal"):
        if hasattr(f, "_np_prng") and hasattr(f, "_generated_until"):
            scripted = ScriptedNormal(f, scn["runner_seed"])
            f._np_prng = scripted
        else:
            mon.ext["degraded_no_seam"] = True
    O.scripted = scripted
    # markets that join the fundamentals later (public add_market(start_at=k)); zero volatility, so that the
    # path is known exactly: the initial value up to start_at, then initial * exp(drift * (t - start_at))
    O.late = []
    for j, lm in enumerate(F.get("late") or []):
        f.add_market(market_id=1000 + j, initial=float(lm["initial"]), drift=float(lm["drift"]), volatility=0.0,
                     start_at=int(lm["start_at"]))
        O.late.append((1000 + j, float(lm["initial"]), float(lm["drift"]), int(lm["start_at"])))
    res["phase"] = "run"
    try:
        sim._update_times_on_markets(sim.markets)  # t = 0
        O.after_advance()
        for i, op in enumerate(scn["fops"]):
            mon.ext["op_index"] = i
            k = op["k"]
            now = sim.markets[0].get_time()
            if k == "advance":
                for _ in range(int(op["n"])):
                    sim._update_times_on_markets(sim.markets)
                    O.after_advance()
            elif k == "query":
                O.query(op)
            elif k == "ahead":
                O.ahead(op)
            elif k == "dup_add":
                # "register it if it is missing": the id is taken, the call is refused and must leave no trace
                mid = op["m"] % n
                try:
                    f.add_market(market_id=mid, initial=float(F["markets"][mid]["initial"]), drift=O.drift[mid],
                                 volatility=O.vol[mid], start_at=int(op.get("start_at", 0)))
                except ValueError:
                    mon.probe("duplicate_market_refused")
                    O.check_history("after a refused registration")
                else:
                    mon.viol("C12", "duplicate_market_accepted", {"market": mid})
            elif k == "moments":
                O.check_moments()
            elif k in ("vol", "drift", "corr", "uncorr", "shock"):
                O.before_change(now)
                mid = op["m"] % n
                if k == "vol":
                    oldv = O.vol[mid]
                    O.vol[mid] = float(op["v"])
                    admissible = O.pos_def(O.corr)
                    O.vol[mid] = oldv
                    if not admissible:  # the statement quantifies over admissible correlation matrices only
                        continue
                    f.change_volatility(market_id=mid, volatility=float(op["v"]), time=now)
                    O.vol[mid] = float(op["v"])
                elif k == "drift":
                    f.change_drift(market_id=mid, drift=op["v"], time=now)  # as written: 0 stays a Python int
                    O.drift[mid] = float(op["v"])
                elif k == "corr":
                    b = op["m2"] % n
                    if b == mid or O.vol[mid] == 0.0 or O.vol[b] == 0.0:
                        continue
                    newc = dict(O.corr)
                    newc[(min(mid, b), max(mid, b))] = float(op["v"])
                    if not O.pos_def(newc):
                        continue
                    f.set_correlation(market_id1=mid, market_id2=b, corr=float(op["v"]), time=now)
                    O.corr = newc
                elif k == "uncorr":
                    b = op["m2"] % n
                    key = (min(mid, b), max(mid, b))
                    if key not in O.corr:
                        continue
                    newc = dict(O.corr)
                    del newc[key]
                    if not O.pos_def(newc):
                        continue
                    f.remove_correlation(market_id1=mid, market_id2=b, time=now)
                    O.corr = newc
                elif k == "shock":
                    old = sim.markets[mid].get_fundamental_price()
                    sim.markets[mid].change_fundamental_price(scale=float(op["v"]))
                    O.shocked(mid, old, float(op["v"]), now)
                O.after_change(now, k)
            else:
                raise ValueError(k)
        O.finish()
        res["completed"] = True
    except Exception as e:
        res["error"] = classify_exception(e)
        if res["error"]["in_harness"]:
            raise
        res["error"]["op_index"] = mon.ext.get("op_index")
    res["violations"] = [v.as_dict() for v in mon.violations]
    res["stats"] = dict(mon.stats)
    res["probes"] = dict(mon.probes)
    res["n_events"] = mon.seq
    res["_mon"] = mon
    mon.trace = O.trace
    return res


class FundOracle:
    def __init__(self, mon: Monitor, sim, F, scn):
        self.mon = mon
        self.sim = sim
        self.f = sim.fundamentals
        self.n = len(F["markets"])
        self.initial = [float(m["initial"]) for m in F["markets"]]
        self.drift = [float(m["drift"]) for m in F["markets"]]
        self.vol = [float(m["vol"]) for m in F["markets"]]
        self.corr = {(min(a, b), max(a, b)): float(c) for a, b, c in (F.get("corr") or [])}
        self.scripted: Optional[ScriptedNormal] = None
        self.hist: List[List[float]] = [[] for _ in range(self.n)]  # recorded values, frozen as the clock passes
        self.level = [(self.initial[i], 0) for i in range(self.n)]  # (level, t0) of the exact zero-vol path
        self.regime_start = 0
        self.learn: Dict[int, Dict[int, np.ndarray]] = {}
        self.trace: List = []
        self.just_shocked: Dict[int, int] = {}
        self.change_times = set()
        self.peek: Dict[Any, float] = {}  # values read ahead of the clock: (market, time) -> value
        gc = (scn.get("knobs") or {}).get("generation_chunk") or 100
        self.gc = gc

    def pos_def(self, corr) -> bool:
        idx = [i for i in range(self.n) if self.vol[i] != 0.0]
        C = np.eye(len(idx))
        for (a, b), c in corr.items():
            if a in idx and b in idx:
                C[idx.index(a), idx.index(b)] = c
                C[idx.index(b), idx.index(a)] = c
        try:
            return bool(np.linalg.eigvalsh(C).min() > 0.05)
        except Exception:
            return False

    def after_advance(self):
        mon = self.mon
        t = self.sim.markets[0].get_time()
        vals = []
        for i, m in enumerate(self.sim.markets):
            v = m.get_fundamental_price()
            vals.append(v)
            if not (isinstance(v, float) and math.isfinite(v) and v > 0):
                mon.viol("C12", "not_positive_finite", {"market": i, "t": t, "value": v})
            if t == 0 and v != self.initial[i]:
                mon.viol("C12", "initial_value", {"market": i, "got": v, "want": self.initial[i]})
        self.trace.append((t, tuple(vals)))
        mon.stat("f_steps")
        for i in range(self.n):
            pv = self.peek.pop((i, t), None)
            if pv is not None:
                if pv != vals[i]:
                    mon.viol("C12", "continuation_differs_from_read_ahead", {"market": i, "t": t, "read_ahead": pv, "recorded": vals[i]})
                mon.probe("read_ahead_realised")
        for mid, init, drift, k in getattr(self, "late", []):
            v = self.f.get_fundamental_price(market_id=mid, time=t)
            want = init if t <= k else init * math.exp(drift * (t - k))
            if not close(v, want, 1e-12 * max(1, t - k)):
                mon.viol("C12", "late_market_path", {"market_id": mid, "t": t, "got": v, "want": want, "start_at": k, "drift": drift})
            if t > k:
                mon.probe("late_market_started")
        if t > 0 and t % self.gc == 0:
            mon.probe("generation_chunk_boundary_crossed")
        # frozen history: everything before t must still read as it did
        for i, m in enumerate(self.sim.markets):
            h = self.hist[i]
            if t >= 1 and len(h) == t - 1:
                h.append(m.get_fundamental_price(t - 1))
        if t >= 1:
            prev = [self.sim.markets[i].get_fundamental_price(t - 1) for i in range(self.n)]
            r = [math.log(vals[i] / prev[i]) for i in range(self.n)]
            for i in range(self.n):
                if self.vol[i] == 0.0:
                    lvl, t0 = self.level[i]
                    want = lvl * math.exp(self.drift[i] * (t - t0))
                    if not close(vals[i], want, 1e-12 * max(1, t - t0)):
                        mon.viol("C12", "zero_vol_path", {"market": i, "t": t, "got": vals[i], "want": want,
                                                          "level": lvl, "since": t0, "drift": self.drift[i]})
                    mon.probe("zero_vol_step")
            if self.scripted is not None:
                self.check_scripted(t, r)

    def check_scripted(self, t, r):
        mon = self.mon
        z = self.scripted.served.get(t)
        idx = [i for i in range(self.n) if self.vol[i] != 0.0]
        if z is None:
            if idx:
                mon.viol("C12", "seam_bypassed", {"t": t})
            return
        if len(z) != len(idx):
            return
        exc = np.asarray([r[i] - self.drift[i] for i in idx])
        nz = np.flatnonzero(z)
        A = self.learn.setdefault(self.regime_start, {})
        if len(nz) == 0:
            if np.abs(exc).max(initial=0.0) > 1e-12:
                mon.viol("C12", "drift_wrong", {"t": t, "excess_return_with_zero_noise": exc.tolist(), "drift": [self.drift[i] for i in idx]})
            mon.probe("scripted_zero_column")
        elif len(nz) == 1 and z[nz[0]] == 1.0:
            A[int(nz[0])] = exc.copy()
            mon.probe("scripted_unit_column")
            if len(A) == len(idx):
                self.check_cov(t, A, idx)
        else:
            if len(A) == len(idx):
                M = np.column_stack([A[j] for j in range(len(idx))])
                want = M @ z
                if np.abs(want - exc).max() > 1e-9 * max(1.0, np.abs(want).max()):
                    mon.viol("C12", "not_linear_in_noise", {"t": t, "z": z.tolist(), "got": exc.tolist(), "want": want.tolist()})
                mon.probe("scripted_linearity_checked")

    def check_cov(self, t, A, idx):
        mon = self.mon
        M = np.column_stack([A[j] for j in range(len(idx))])
        got = M @ M.T
        D = np.diag([self.vol[i] for i in idx])
        C = np.eye(len(idx))
        for (a, b), c in self.corr.items():
            if a in idx and b in idx:
                C[idx.index(a), idx.index(b)] = c
                C[idx.index(b), idx.index(a)] = c
        want = D @ C @ D
        scale = max(np.abs(want).max(), 1e-300)
        if np.abs(got - want).max() > 1e-9 * scale:
            mon.viol("C12", "covariance_wrong", {"t": t, "got": got.tolist(), "want": want.tolist(),
                                                 "vol": [self.vol[i] for i in idx], "corr": {f"{a}-{b}": c for (a, b), c in self.corr.items()}})
        mon.probe("scripted_covariance_checked")
        if len(idx) >= 2 and any(c != 0 for c in self.corr.values()):
            mon.probe("scripted_covariance_with_correlation")

    def check_history(self, where):
        mon = self.mon
        for i, m in enumerate(self.sim.markets):
            h = self.hist[i]
            if not h:
                continue
            got = m.get_fundamental_prices(range(len(h)))
            if got != h:
                k = [j for j in range(len(h)) if got[j] != h[j]][0]
                mon.viol("C12", "history_changed", {"market": i, "time": k, "was": h[k], "now_reads": got[k], "where": where})
            # the fundamentals object agrees with what the market recorded
            for s in (0, len(h) // 2, len(h) - 1):
                if s in self.change_times:
                    continue  # the value *at* the time of a change is not protected by the statement
                v = self.f.get_fundamental_price(market_id=m.market_id, time=s)
                if v != h[s]:
                    mon.viol("C12", "history_changed", {"market": i, "time": s, "was": h[s], "fundamentals_object_reads": v, "where": where})

    def ahead(self, op):
        """the list getter of the fundamentals object asked for past and *future* times in any order and
        container form.  Future values must continue from the current level (exactly so with zero volatility)
        and, unless a change intervenes, be the values the markets later record."""
        mon = self.mon
        now = self.sim.markets[0].get_time()
        ts = [max(0, now + int(o)) for o in op.get("offs", [])]
        if not ts:
            return
        form = op.get("form", "list")
        for i, m in enumerate(self.sim.markets):
            if form == "tuple":
                arg = tuple(ts)
            elif form == "range" and len(ts) >= 2 and ts[0] != ts[1] and ts == list(range(ts[0], ts[-1] + (1 if ts[1] > ts[0] else -1), ts[1] - ts[0])):
                arg = range(ts[0], ts[-1] + (1 if ts[1] > ts[0] else -1), ts[1] - ts[0])
            else:
                arg = list(ts)
            lst = list(self.f.get_fundamental_prices(market_id=m.market_id, times=arg))
            if len(lst) != len(ts):
                mon.viol("C12", "list_getter_length", {"market": i, "asked": ts, "got": len(lst)})
                continue
            for s_, v in zip(ts, lst):
                if s_ < now:
                    if s_ not in self.change_times and v != m.get_fundamental_price(s_):
                        mon.viol("C12", "history_changed", {"market": i, "time": s_, "market_recorded": m.get_fundamental_price(s_),
                                                            "list_getter": v, "asked": ts})
                elif s_ > now:
                    if not (isinstance(v, float) and math.isfinite(v) and v > 0):
                        mon.viol("C12", "not_positive_finite", {"market": i, "t": s_, "value": v, "read_ahead": True})
                    if self.vol[i] == 0.0:
                        lvl, t0 = self.level[i]
                        want = lvl * math.exp(self.drift[i] * (s_ - t0))
                        if not close(v, want, 1e-12 * max(1, s_ - t0)):
                            mon.viol("C12", "zero_vol_path", {"market": i, "t": s_, "got": v, "want": want, "level": lvl,
                                                              "since": t0, "drift": self.drift[i], "read_ahead_at": now, "asked": ts})
                    old = self.peek.get((i, s_))
                    if old is not None and old != v:
                        mon.viol("C12", "continuation_not_stable", {"market": i, "t": s_, "first_read": old, "now_reads": v, "at": now})
                    self.peek[(i, s_)] = v
                    mon.probe("read_ahead")
        if any(a > b for a, b in zip(ts, ts[1:])):
            mon.probe("read_ahead_not_ascending")

    def before_change(self, now):
        self.change_times.add(now)
        for key in [k_ for k_ in self.peek if k_[1] >= now]:
            del self.peek[key]  # a change at t legitimately moves everything from t on
        self.check_history("before change")
        self.at_change = [m.get_fundamental_price() for m in self.sim.markets]

    def shocked(self, mid, old, scale, now):
        m = self.sim.markets[mid]
        v = m.get_fundamental_price()
        if not close(v, old * scale, 1e-12):
            self.mon.viol("C12", "shock_value", {"market": mid, "t": now, "got": v, "want": old * scale})
        self.level[mid] = (v, now)
        self.mon.probe("shock")

    def after_change(self, now, kind):
        mon = self.mon
        self.check_history("after change")
        mon.probe("change_" + kind)
        for i, m in enumerate(self.sim.markets):
            v = m.get_fundamental_price()
            if kind != "shock" and v != self.at_change[i]:
                # the value *at* t is not protected by the statement for parameter changes; only note it
                mon.probe("value_at_change_time_moved")
            if kind in ("drift", "vol", "shock"):
                self.level[i] = (v, now)
        self.regime_start = now

    def query(self, op):
        """out-of-order / repeated queries of the fundamentals object for times already passed."""
        now = self.sim.markets[0].get_time()
        if now < 1:
            return
        for s in op.get("times", []):
            s = s % now  # strictly before the current time: the value *at* the time of a change is not protected
            if s in self.change_times:
                continue
            for i, m in enumerate(self.sim.markets):
                a = self.f.get_fundamental_price(market_id=m.market_id, time=s)
                b = m.get_fundamental_price(s)
                if a != b:
                    self.mon.viol("C12", "history_changed", {"market": i, "time": s, "market_recorded": b, "fundamentals_object_reads": a})
        # the list getter of the fundamentals object agrees with the single getter
        ts = sorted({t % now for t in op.get("times", [])} - self.change_times)
        if ts:
            for i, m in enumerate(self.sim.markets):
                lst = self.f.get_fundamental_prices(market_id=m.market_id, times=ts)
                one = [m.get_fundamental_price(t) for t in ts]
                if list(lst) != one:
                    self.mon.viol("C12", "history_changed", {"market": i, "times": ts, "list_getter": list(lst), "recorded": one})

    def check_moments(self):
        """supplementary sample-moment check with the real generator: fixed sample size, 7-sigma bounds
        (false-alarm probability < 1e-10 per comparison; DESIGN.md 3.5)."""
        mon = self.mon
        cols = [m.get_fundamental_prices() for m in self.sim.markets]
        T = len(cols[0]) - 1
        if T < 1000:
            return
        R = np.log(np.asarray([c[1:] for c in cols]) / np.asarray([c[:-1] for c in cols]))
        for i in range(self.n):
            mu, sd = float(R[i].mean()), float(R[i].std(ddof=1))
            v = self.vol[i]
            if v == 0.0:
                continue
            if abs(mu - self.drift[i]) > 7 * v / math.sqrt(T):
                mon.viol("C12", "sample_mean_off", {"market": i, "mean": mu, "drift": self.drift[i], "vol": v, "T": T})
            if abs(sd - v) > 7 * v / math.sqrt(2 * T):
                mon.viol("C12", "sample_std_off", {"market": i, "std": sd, "vol": v, "T": T})
        for a in range(self.n):
            for b in range(a + 1, self.n):
                if self.vol[a] == 0.0 or self.vol[b] == 0.0:
                    continue
                rho = self.corr.get((a, b), 0.0)
                got = float(np.corrcoef(R[a], R[b])[0, 1])
                if abs(math.atanh(max(-0.999999, min(0.999999, got))) - math.atanh(rho)) > 7 / math.sqrt(T - 3):
                    mon.viol("C12", "sample_correlation_off", {"pair": [a, b], "got": got, "want": rho, "T": T})
        mon.probe("moments_checked")

    def finish(self):
        self.check_history("end")
        if self.scripted is not None and self.scripted.calls == 0 and any(v != 0 for v in self.vol):
            self.mon.viol("C12", "seam_bypassed", {})
