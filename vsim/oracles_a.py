"""Run-level oracles (driver A, partly B): C05 ledger, C06 clock/history, C09 session rules,
C10 logger stream, C11 callbacks, C13 hooks, C17 index values.  Each is a Monitor plugin.
"""
import math
from collections import Counter
from typing import Any, Dict, List, Optional, Tuple

from . import env  # noqa: F401
from .monitor import Plugin, close, REL

from pams.agents.high_frequency_agent import HighFrequencyAgent  # noqa: E402
from pams.index_market import IndexMarket  # noqa: E402
from pams.market import Market  # noqa: E402


# ====================================================================== C05
class LedgerPlugin(Plugin):
    def attach(self, mon):
        self.n = 0

    def check(self, mon, where, agents=None):
        led = mon.ledger
        self.n += 1
        for a in (agents if agents is not None else mon.agents):
            aid = a.agent_id
            want_sh = led.shares.get(aid, {})
            for mid, v in want_sh.items():
                got = a.get_asset_volume(mid)
                if got != v:
                    mon.viol("C05", "shares_mismatch", {"agent": a.name, "market": mid, "got": got, "ledger": v, "where": where})
            got_c = a.get_cash_amount()
            want_c = led.cash[aid]
            if not close(float(got_c), float(want_c), REL, led.cash_abs[aid]):
                mon.viol("C05", "cash_mismatch", {"agent": a.name, "got": got_c, "ledger": want_c, "where": where})
        if agents is None:
            tot: Dict[int, int] = {}
            cash = 0.0
            for a in mon.agents:
                cash += a.get_cash_amount()
                for m in mon.markets:
                    if a.is_market_accessible(m.market_id):
                        tot[m.market_id] = tot.get(m.market_id, 0) + a.get_asset_volume(m.market_id)
            for mid, v in led.total_shares0.items():
                if tot.get(mid, 0) != v:
                    mon.viol("C05", "total_shares_not_conserved", {"market": mid, "got": tot.get(mid, 0), "initial": v, "where": where})
            scale = sum(abs(x) for x in led.cash.values()) + 2 * led.flow_abs + abs(led.total_cash0)
            if abs(cash - led.total_cash0) > REL * max(scale, 1.0):
                mon.viol("C05", "total_cash_not_conserved", {"got": cash, "initial": led.total_cash0, "where": where})

    def observe(self, mon, where):
        if mon.in_round is not None or mon.ext.get("unsettled"):
            return  # fills reported by a market but not yet handed to the simulator for settlement
        self.check(mon, where)

    def on_callback(self, mon, agent, kind, log):
        if kind == "executed":
            self.check(mon, "executed_order callback", [agent])

    def finish(self, mon, completed):
        if completed:
            self.check(mon, "end")


# ====================================================================== C06
SERIES = ["market_price", "mid_price", "last_executed_price", "fundamental_price", "executed_volume",
          "executed_total_price", "n_buy_order", "n_sell_order"]


class ClockPlugin(Plugin):
    def attach(self, mon):
        self.hist: Dict[int, List[Tuple]] = {m.market_id: [] for m in mon.markets}
        self.step_no = -1
        self.obs = 0
        self.last_step_time = None
        self.in_step = False
        self.session_steps_seen: Dict[int, int] = {}
        self.first_stb = True

    def _val(self, market, s):
        return (market.get_market_price(s), market.get_mid_price(s), market.get_last_executed_price(s),
                market.get_fundamental_price(s), market.get_executed_volume(s), market.get_executed_total_price(s),
                market.get_n_buy_order(s), market.get_n_sell_order(s))

    def _ival(self, market, s):
        # what an index market *computes* for a time: a function of what its components recorded for it
        return (market.compute_fundamental_index(s), market.compute_market_index(s), market.get_index(s),
                market.get_market_index(s))

    def pre_tick(self, mon, market):
        # the last instant at which the current time is still "now": what is recorded for it is final
        t = market.get_time()
        if t >= 0:
            self.last_now = getattr(self, "last_now", {})
            self.last_now[market.market_id] = (t, self._val(market, t))
            if isinstance(market, IndexMarket) and all(c.get_time() > t for c in market.get_components()):
                self.ilast_now = getattr(self, "ilast_now", {})
                self.ilast_now[market.market_id] = (t, self._ival(market, t))

    def post_tick(self, mon, market, mm, t):
        # the clock of this market just passed t-1: freeze what it recorded for t-1
        if t >= 1:
            h = self.hist[market.market_id]
            if len(h) == t - 1:
                h.append(self._val(market, t - 1))
            ln = getattr(self, "last_now", {}).get(market.market_id)
            if ln is not None and ln[0] == t - 1:
                now_reads = self._val(market, t - 1)
                for ci in range(len(SERIES)):
                    a, b = ln[1][ci], now_reads[ci]
                    if a != b and not (a is None and b is None):
                        mon.viol("C06", "history_changed_by_clock_advance",
                                 {"market": market.name, "series": SERIES[ci], "time": t - 1, "was": a, "now_reads": b})
                        break
        if t >= 1 and isinstance(market, IndexMarket):
            iln = getattr(self, "ilast_now", {}).get(market.market_id)
            ih = self.__dict__.setdefault("ihist", {}).setdefault(market.market_id, {})
            try:
                cur = self._ival(market, t - 1)
            except Exception:
                cur = None
            if cur is not None:
                if iln is not None and iln[0] == t - 1 and iln[1] != cur and not any(x != x for x in cur + iln[1]):
                    names = ("compute_fundamental_index", "compute_market_index", "get_index", "get_market_index")
                    ci = [i for i in range(4) if iln[1][i] != cur[i]][0]
                    mon.viol("C06", "history_changed_by_clock_advance",
                             {"market": market.name, "series": names[ci], "time": t - 1, "was": iln[1][ci], "now_reads": cur[ci]})
                ih[t - 1] = cur
                # an older time, re-read
                for s_ in (0, (t - 1) // 2):
                    if s_ in ih and s_ < t - 1:
                        try:
                            again = self._ival(market, s_)
                        except Exception:
                            continue
                        if again != ih[s_] and not any(x != x for x in again + ih[s_]):
                            mon.viol("C06", "history_changed", {"market": market.name, "series": "index computations", "time": s_,
                                                               "was": list(ih[s_]), "now_reads": list(again), "clock": t})
                mon.probe("index_history_checked")
        if mon.ext.get("storage_chunk_applied") and t > 0 and t % mon.ext["storage_chunk_applied"] == 0:
            mon.probe("storage_chunk_boundary_crossed")
        elif t > 0 and t % 100 == 0:
            mon.probe("storage_chunk_boundary_crossed")

    def check_history(self, mon, where):
        for m in mon.markets:
            now = m.get_time()
            h = self.hist[m.market_id]
            n = min(len(h), now)
            if n <= 0:
                continue
            rng_ = range(n)
            cols = (m.get_market_prices(rng_), m.get_mid_prices(rng_), m.get_last_executed_prices(rng_),
                    m.get_fundamental_prices(rng_), m.get_executed_volumes(rng_), m.get_executed_total_prices(rng_),
                    m.get_n_buy_orders(rng_), m.get_n_sell_orders(rng_))
            for ci, col in enumerate(cols):
                for s in range(n):
                    if col[s] != h[s][ci] and not (col[s] is None and h[s][ci] is None):
                        mon.viol("C06", "history_changed",
                                 {"market": m.name, "series": SERIES[ci], "time": s, "was": h[s][ci], "now_reads": col[s],
                                  "clock": now, "where": where})
                        return
            # single-time getters agree with range getters
            s = n - 1
            if self._val(m, s) != h[s] and not all((a == b) or (a is None and b is None) for a, b in zip(self._val(m, s), h[s])):
                mon.viol("C06", "history_changed", {"market": m.name, "time": s, "where": where, "getter": "single"})

    def check_future(self, mon, where):
        for m in mon.markets:
            now = m.get_time()
            if now < 0:
                continue
            single = [m.get_market_price, m.get_mid_price, m.get_last_executed_price, m.get_fundamental_price,
                      m.get_executed_volume, m.get_executed_total_price, m.get_n_buy_order, m.get_n_sell_order, m.get_vwap]
            multi = [m.get_market_prices, m.get_mid_prices, m.get_last_executed_prices, m.get_fundamental_prices,
                     m.get_executed_volumes, m.get_executed_total_prices, m.get_n_buy_orders, m.get_n_sell_orders]
            if isinstance(m, IndexMarket):
                single = single + [m.get_index, m.get_market_index, m.get_fundamental_index]
            for g in single:
                for dt in (1, 5):
                    try:
                        g(now + dt)
                    except Exception:
                        continue
                    mon.viol("C06", "future_not_refused", {"market": m.name, "getter": g.__name__, "now": now, "asked": now + dt, "where": where})
                try:
                    g(now)
                except Exception as e:
                    mon.viol("C06", "present_refused", {"market": m.name, "getter": g.__name__, "now": now, "exc": repr(e)})
            lo = max(0, now - 1)
            future_forms = (
                ("ascending range", range(lo, now + 2)),
                ("descending range", range(now + 1, lo - 1, -1)),
                ("descending range far", range(now + 3, now, -1)),
                ("stepped range", range(0, now + 4, 3) if (now + 3) % 3 == 0 or True else None),
                ("list future last", [lo, now, now + 1]),
                ("list future first", [now + 2, now, lo]),
                ("tuple", (now + 1,)),
                ("generator", (t for t in (now, now + 1))),
            )
            for label, form in future_forms:
                if label == "stepped range" and not any(t > now for t in form):
                    continue
                for g in multi:
                    arg = list(form) if False else form
                    if label == "generator":
                        arg = (t for t in (now, now + 1))
                    try:
                        g(arg)
                    except Exception:
                        continue
                    mon.viol("C06", "future_not_refused", {"market": m.name, "getter": g.__name__, "now": now, "asked": label, "where": where})
            for g in multi:
                try:
                    a = g(range(0, now + 1))
                    b = g(None)
                    c = g(range(now, -1, -1))
                    d = g(list(range(0, now + 1)))
                    if not (a == b == d and a == list(reversed(c))) and not any(isinstance(x, float) and x != x for x in a):
                        mon.viol("C06", "getter_forms_disagree", {"market": m.name, "getter": g.__name__, "now": now})
                    elif not any(isinstance(x, float) and x != x for x in b):
                        # a caller that rewrites in place the list it was handed (normalising a history, say) must not
                        # reach the market's records: the no-argument form read again gives the same values
                        saved = list(b)
                        for i in range(len(b)):
                            b[i] = -1
                        if g(None) != saved:
                            mon.viol("C06", "history_changed_through_returned_list", {"market": m.name, "getter": g.__name__, "now": now})
                except Exception as e:
                    mon.viol("C06", "present_refused", {"market": m.name, "getter": g.__name__, "now": now, "exc": repr(e)})
            mon.stat("future_probes")

    def observe(self, mon, where):
        times = {m.get_time() for m in mon.markets}
        if len(times) > 1 and where != "tick":
            mon.viol("C06", "markets_out_of_step", {"times": sorted(times), "where": where})
        self.obs += 1
        if where in ("StB", "StE") or self.obs % 7 == 0:
            self.check_future(mon, where)

    def on_written(self, mon, log, code, channel, first):
        if code == "SesB":
            ses = log.session
            idx = ses.session_id
            want = sum(int(s["iterationSteps"]) for s in mon.sessions_cfg[:idx])
            if ses.session_start_time != want:
                mon.viol("C06", "session_start_time", {"session": idx, "got": ses.session_start_time, "want": want})
            for m in mon.markets:
                if m.get_time() != want:
                    mon.viol("C06", "session_begins_at_wrong_time", {"session": idx, "market": m.name, "clock": m.get_time(), "want": want})
        if code == "SesE":
            idx = log.session.session_id
            seen = self.session_steps_seen.get(idx, 0)
            want = int(mon.sessions_cfg[idx]["iterationSteps"]) * len(mon.markets) * 2
            if seen != want:
                mon.viol("C06", "session_step_count", {"session": idx, "step_records": seen, "want": want})

    def on_step_record(self, mon, log, code):
        m = log.market
        idx = log.session.session_id
        k = self.session_steps_seen.get(idx, 0)
        self.session_steps_seen[idx] = k + 1
        nm = len(mon.markets)
        start = sum(int(s["iterationSteps"]) for s in mon.sessions_cfg[:idx])
        want_t = start + k // (2 * nm)
        if m.get_time() != want_t:
            mon.viol("C06", "step_time", {"market": m.name, "session": idx, "record": code, "clock": m.get_time(), "want": want_t})
        if code == "StB" and m.market_id == mon.markets[0].market_id:
            self.check_history(mon, "step begin")

    def finish(self, mon, completed):
        if completed:
            self.check_history(mon, "end")
            total = sum(int(s["iterationSteps"]) for s in mon.sessions_cfg)
            for m in mon.markets:
                if m.get_time() != total:
                    mon.viol("C06", "final_clock", {"market": m.name, "clock": m.get_time(), "want": total})


# ====================================================================== C09
class SessionRulesPlugin(Plugin):
    def attach(self, mon):
        self.step_events: List[Tuple] = []
        self.cur_step_key = None
        self.pending_round = None
        self.order_same = 0
        self.order_total = 0
        self.firsts = set()
        self.normal_ids = [a.agent_id for a in mon.sim.normal_frequency_agents]
        self.hft_ids = [a.agent_id for a in mon.sim.high_frequency_agents]
        self.n_stb = 0
        self.n_ste = 0
        self.ret: Dict[int, int] = {}
        self.last_consulted = None
        self.all_recording = all(hasattr(a, "turns") for a in mon.agents)

    def _session_cfg(self, mon):
        ses = mon.sim.current_session
        if ses is None:
            return None, None
        return ses, mon.sessions_cfg[ses.session_id]

    def _need_round_check(self, mon, what):
        if self.pending_round is not None:
            mname, seq = self.pending_round
            self.pending_round = None
            mon.viol("C09", "no_round_after_accepted_order", {"market": mname, "accepted_at_event": seq, "next": what})

    def on_consult(self, mon, agent, t):
        self._need_round_check(mon, "consult")
        ses, cfg = self._session_cfg(mon)
        if cfg is not None and not cfg["withOrderPlacement"]:
            mon.viol("C09", "consulted_in_no_placement_session", {"agent": agent.name, "t": t})
        self.step_events.append(("Q", agent.agent_id, isinstance(agent, HighFrequencyAgent)))
        self.last_consulted = agent.agent_id

    def on_returned(self, mon, agent, out):
        self.step_events.append(("R", agent.agent_id, len(out)))

    def _accepted(self, mon, market, agent_id, what):
        ses, cfg = self._session_cfg(mon)
        if cfg is not None and not cfg["withOrderPlacement"]:
            mon.viol("C09", "accepted_in_no_placement_session", {"market": market.name, "what": what})
        self.step_events.append(("A", agent_id, market.market_id))

    def on_order_log(self, mon, log, o, mm, market, inf):
        self._need_round_check(mon, "order")
        self._accepted(mon, market, log.agent_id, "order")
        self._arm(mon, market)

    def on_cancel_log(self, mon, log, o, mm, market):
        self._need_round_check(mon, "cancel")
        self._accepted(mon, market, log.agent_id, "cancel")
        self._arm(mon, market)

    def _arm(self, mon, market):
        ses, cfg = self._session_cfg(mon)
        if cfg is None or mon.driver != "A":
            return
        if cfg["withOrderExecution"] and all(m.is_running for m in mon.markets) and ses.with_order_execution:
            self.pending_round = (market.name, mon.seq)
        elif cfg["withOrderExecution"]:
            mon.probe("accept_during_halt")

    def post_round(self, mon, market, mm, fills, rnd):
        if self.pending_round is not None:
            if self.pending_round[0] == market.name:
                self.pending_round = None
        ses, cfg = self._session_cfg(mon)
        if fills and cfg is not None and not cfg["withOrderExecution"]:
            mon.viol("C09", "fill_in_no_execution_session",
                     {"market": market.name, "session": ses.session_id, "t": fills[0].time, "n": len(fills)})
        elif (fills and cfg is not None and mon.driver == "A" and rnd is not None and rnd.get("switch") is False
              and not rnd.get("forced")):
            # the switch was configured on but had been turned off (trading halt, user-written breaker) before this
            # round began - e.g. by a fill earlier in the same batch, on another market
            mon.viol("C09", "fill_while_execution_switched_off",
                     {"market": market.name, "session": ses.session_id, "t": fills[0].time, "n": len(fills)})
        if rnd is not None and rnd.get("switch") is False and mon.driver == "A":
            mon.probe("round_with_switch_off")

    def on_step_record(self, mon, log, code):
        self._need_round_check(mon, code)
        nm = len(mon.markets)
        if code == "StB":
            self.n_stb += 1
            if self.n_stb % nm == 1 or nm == 1:
                self.step_events = []
        else:
            self.n_ste += 1
            if self.n_ste % nm == 1 or nm == 1:
                self.check_step(mon, log.session)

    def check_step(self, mon, ses):
        cfg = mon.sessions_cfg[ses.session_id]
        ev = self.step_events
        self.step_events = []
        if not self.all_recording:
            return
        cap_n = ses.max_normal_orders
        cap_h = ses.max_high_frequency_orders
        rate = ses.high_frequency_submission_rate
        normal_set = set(self.normal_ids)
        # ---- normal phase: all normal consultations precede any acceptance
        seen = []
        nonempty = 0
        first_accept = None
        for i, e in enumerate(ev):
            if e[0] == "A" and first_accept is None:
                first_accept = i
            if e[0] == "Q" and not e[2]:
                if first_accept is not None:
                    mon.viol("C09", "normal_consult_after_processing_began", {"agent": e[1], "t": mon.now})
                if e[1] in seen:
                    mon.viol("C09", "normal_agent_consulted_twice", {"agent": e[1], "t": mon.now})
                if nonempty >= cap_n:
                    mon.viol("C09", "consulted_beyond_normal_cap", {"agent": e[1], "cap": cap_n, "nonempty_before": nonempty, "t": mon.now})
                seen.append(e[1])
            if e[0] == "R" and e[1] in normal_set and e[2] > 0:
                nonempty += 1
        if cfg["withOrderPlacement"]:
            if nonempty < cap_n and len(seen) != len(self.normal_ids):
                mon.viol("C09", "normal_agent_not_consulted", {"consulted": seen, "population": self.normal_ids, "cap": cap_n, "nonempty": nonempty, "t": mon.now})
            if nonempty >= cap_n > 0:
                mon.probe("normal_cap_reached")
            if cap_n == 0 and seen:
                mon.viol("C09", "consulted_beyond_normal_cap", {"cap": 0, "t": mon.now})
        if len(seen) >= 4:
            self.order_total += 1
            if seen == sorted(seen):
                self.order_same += 1
            self.firsts.add(seen[0])
        if len(seen) >= 2:
            mon.consult_seqs.add(tuple(seen))
        # ---- HFT phases
        phases: List[List[Tuple]] = []
        cur: List[Tuple] = []
        batches = []  # normal agents whose batch was processed, in order
        hft_set = set(self.hft_ids)
        last_batch_agent = None
        phase_after_batch = {}
        for e in ev:
            if e[0] == "A" and e[1] in normal_set:
                if e[1] != last_batch_agent:
                    if cur:
                        phases.append(cur)
                        cur = []
                    batches.append(e[1])
                    last_batch_agent = e[1]
            elif e[0] == "Q" and e[2]:
                if not batches:
                    mon.viol("C09", "hft_consulted_before_any_batch", {"agent": e[1], "t": mon.now})
                cur.append(["Q", e[1], None])
                phase_after_batch[len(batches)] = True
            elif e[0] == "R" and e[1] in hft_set and cur:
                cur[-1][2] = e[2]
        if cur:
            phases.append(cur)
        for ph in phases:
            ids = [x[1] for x in ph]
            if len(set(ids)) != len(ids):
                mon.viol("C09", "hft_agent_consulted_twice_in_phase", {"phase": ids, "t": mon.now})
            ne = 0
            for x in ph:
                if ne >= cap_h:
                    mon.viol("C09", "consulted_beyond_hft_cap", {"phase": ph, "cap": cap_h, "t": mon.now})
                    break
                if x[2]:
                    ne += 1
            if ne >= cap_h > 0:
                mon.probe("hft_cap_reached")
            if ne < cap_h and len(ids) != len(self.hft_ids):
                mon.viol("C09", "hft_agent_not_consulted_in_phase", {"phase": ids, "population": self.hft_ids, "cap": cap_h, "t": mon.now})
            if len(ids) >= 2:
                mon.consult_seqs.add(("H",) + tuple(ids))
        if 0 < rate < 1 and cap_h > 0 and self.hft_ids and not mon.aborted and batches:
            # how often a batch is followed by a high-frequency phase: judged over the whole batch of runs
            mon.stat(f"hft_opportunities@{rate:g}", len(batches))
            mon.stat(f"hft_phases@{rate:g}", sum(1 for bi in range(1, len(batches) + 1) if phase_after_batch.get(bi)))
        if phases and (rate == 0 or cap_h == 0):
            mon.viol("C09", "hft_consulted_despite_rate0_or_cap0", {"rate": rate, "cap": cap_h, "t": mon.now})
        if rate >= 1 and cap_h > 0 and self.hft_ids and not mon.aborted:
            for bi in range(1, len(batches) + 1):
                if not phase_after_batch.get(bi):
                    mon.viol("C09", "hft_phase_missing_at_rate1", {"batches": batches, "after_batch": bi, "t": mon.now})
                    break
        if 0 < rate < 1 and self.hft_ids and cap_h > 0 and batches:
            mon.probe("hft_coin_yes", len(phases))
            mon.probe("hft_coin_no", len(batches) - len(phases))

    def finish(self, mon, completed):
        if completed:
            self._need_round_check(mon, "end")
        if self.order_total >= 12 and self.order_same == self.order_total:
            mon.viol("C09", "consultation_order_not_random", {"steps_with_4plus_consulted": self.order_total})
        mon.ext["c09_order"] = (self.order_same, self.order_total)


# ====================================================================== C10
class LoggerPlugin(Plugin):
    def attach(self, mon):
        self.W: List[Tuple[str, int]] = []
        self.P: List[Tuple[str, int, Any]] = []
        self.truth: List[Tuple[str, int]] = []
        self.wcount: Counter = Counter()
        self.pcount: Counter = Counter()
        self.expect_direct = None
        self.n_tick_exp = 0
        self.step_seen = Counter()

    def on_written(self, mon, log, code, channel, first):
        self.W.append((code, id(log)))
        self.wcount[id(log)] += 1
        if not first and code in ("O", "C", "E", "X"):
            mon.viol("C10", "duplicate_record", {"code": code, "channel": channel, "fields": _fields(log)})
        if code in ("SesE", "SimE"):
            pass

    def on_processed(self, mon, log, code):
        if self.expect_direct is not None:
            if self.expect_direct != id(log):
                mon.viol("C10", "step_record_not_synchronous", {"processed_instead": code})
            self.expect_direct = None
        self.P.append((code, id(log), _time_key(log, code)))
        self.pcount[id(log)] += 1
        if code in ("StB", "StE"):
            pass
        if code in ("SesE", "SimE"):
            # the flush at a boundary: everything written so far has now been processed
            done = {i for _, i, _ in self.P}
            for c, i in self.W:
                if i not in done:
                    mon.viol("C10", "record_not_flushed_at_boundary", {"code": c, "boundary": code})
                    break

    def on_step_record(self, mon, log, code):
        if self.expect_direct is not None:
            mon.viol("C10", "step_record_not_synchronous", {"code": code})
        self.expect_direct = id(log)
        mon.keepalive.append(log)
        self.step_seen[id(log)] += 1

    # truth channels independent of the logger: return values of the market entry points
    def on_order_log(self, mon, log, o, mm, market, inf):
        self.truth.append(("O", id(log)))

    def on_cancel_log(self, mon, log, o, mm, market):
        self.truth.append(("C", id(log)))

    def post_round(self, mon, market, mm, fills, rnd):
        for f in fills:
            self.truth.append(("E", id(f)))

    def finish(self, mon, completed):
        if self.expect_direct is not None:
            mon.viol("C10", "step_record_never_processed", {})
        # a. exactly once written, exactly once processed
        ids_truth = [i for _, i in self.truth]
        for c, i in self.truth:
            if self.wcount.get(i, 0) != 1:
                mon.viol("C10", "duplicate_record" if self.wcount.get(i, 0) > 1 else "missing_record",
                         {"code": c, "written": self.wcount.get(i, 0)})
                break
        if completed:
            for c, i in self.W:
                if self.pcount.get(i, 0) != self.wcount[i]:
                    mon.viol("C10", "written_but_processed_differently",
                             {"code": c, "written": self.wcount[i], "processed": self.pcount.get(i, 0)})
                    break
            for c, i in self.truth:
                if self.pcount.get(i, 0) != 1:
                    mon.viol("C10", "processed_count", {"code": c, "processed": self.pcount.get(i, 0)})
                    break
        # b. order: truth order == order in the written stream == order in the processed stream
        w_oce = [i for c, i in _dedup(self.W) if c in ("O", "C", "E")]
        if w_oce != ids_truth and not mon.aborted:
            mon.viol("C10", "written_order_differs_from_event_order", {"n_truth": len(ids_truth), "n_written": len(w_oce)})
        if completed:
            p_seq = [(c, i) for c, i, _ in self.P if c not in ("StB", "StE")]
            w_seq = [(c, i) for c, i in self.W]
            if _dedup(p_seq) != _dedup(w_seq):
                mon.viol("C10", "processed_order_differs_from_written_order", {"n_p": len(p_seq), "n_w": len(w_seq)})
            keys = [k for c, i, k in self.P if c in ("O", "C", "E", "X") and k is not None]
            for a, b in zip(keys, keys[1:]):
                if b < a:
                    mon.viol("C10", "records_out_of_time_order", {"a": a, "b": b})
                    break
            self.check_frames(mon)

    def check_frames(self, mon):
        codes = [c for c, i, _ in self.P if c in ("SimB", "SimE", "SesB", "SesE", "StB", "StE")]
        nm = len(mon.markets)
        want = ["SimB"]
        for s in mon.sessions_cfg:
            want.append("SesB")
            for _ in range(int(s["iterationSteps"])):
                want.extend(["StB"] * nm)
                want.extend(["StE"] * nm)
            want.append("SesE")
        want.append("SimE")
        if codes != want:
            # first difference
            k = 0
            while k < min(len(codes), len(want)) and codes[k] == want[k]:
                k += 1
            mon.viol("C10", "framing", {"first_difference_at": k, "got": codes[k:k + 6], "want": want[k:k + 6],
                                        "n_got": len(codes), "n_want": len(want)})
        # O/C/E/X records lie between SimB and SimE
        allc = [c for c, i, _ in self.P]
        if allc and (allc[0] != "SimB" or allc[-1] != "SimE"):
            mon.viol("C10", "framing", {"first": allc[0], "last": allc[-1]})


def _dedup(seq):
    seen = set()
    out = []
    for x in seq:
        k = x[1] if isinstance(x, tuple) else x
        if k in seen:
            continue
        seen.add(k)
        out.append(x)
    return out


def _time_key(log, code):
    if code == "O":
        return log.time
    if code == "C":
        return log.cancel_time
    if code == "E":
        return log.time
    if code == "X":
        return log.time - 0.5
    return None


def _fields(log):
    return {k: repr(v) for k, v in vars(log).items() if k not in ("simulator", "session", "market")}


# ====================================================================== C11
class CallbackPlugin(Plugin):
    def attach(self, mon):
        self.calls: Counter = Counter()  # (agent_id, kind, id(log)) -> n
        self.truth: List[Tuple[str, Any]] = []
        self.recording = {a.agent_id for a in mon.agents if hasattr(a, "turns") or getattr(a, "_vsim_probe", False)}
        self.ledger_plugin = LedgerPlugin()
        self.ledger_plugin.attach(mon)
        specs = mon.ext.get("probe_specs", {}) or {}
        self.owner_rewriters = any((sp.get("rewrite") or {}).get("owner") is not None for sp in specs.values())

    def on_callback(self, mon, agent, kind, log):
        mon.keepalive.append(log)
        self.calls[(agent.agent_id, kind, id(log))] += 1
        if id(log) not in mon.seen_logs and mon.retain:
            mon.viol("C11", "callback_with_unknown_record", {"agent": agent.name, "kind": kind})
        # party check
        if kind == "submitted" and log.agent_id != agent.agent_id:
            mon.viol("C11", "notified_of_foreign_order", {"agent": agent.name, "owner": log.agent_id})
        if kind == "canceled" and log.agent_id != agent.agent_id:
            mon.viol("C11", "notified_of_foreign_cancel", {"agent": agent.name, "owner": log.agent_id})
        if kind == "executed":
            if agent.agent_id not in (log.buy_agent_id, log.sell_agent_id):
                mon.viol("C11", "notified_of_foreign_fill", {"agent": agent.name, "buyer": log.buy_agent_id, "seller": log.sell_agent_id})
            # holdings already include the whole round (the ledger is fed when the market reports the fill)
            led = mon.ledger
            for mid, v in led.shares.get(agent.agent_id, {}).items():
                if agent.get_asset_volume(mid) != v:
                    mon.viol("C11", "callback_before_holdings_update", {"agent": agent.name, "market": mid,
                                                                         "got": agent.get_asset_volume(mid), "ledger": v})
            if math.isfinite(float(led.cash[agent.agent_id])) and math.isfinite(led.cash_abs[agent.agent_id]) and \
                    not close(float(agent.get_cash_amount()), float(led.cash[agent.agent_id]), REL, led.cash_abs[agent.agent_id]):
                mon.viol("C11", "callback_before_holdings_update", {"agent": agent.name, "cash": agent.get_cash_amount(),
                                                                     "ledger": led.cash[agent.agent_id]})
            if log.buy_agent_id == log.sell_agent_id:
                mon.probe("self_trade_callback")

    def on_order_log(self, mon, log, o, mm, market, inf):
        self.truth.append(("O", log))
        # the owner named in the record is the agent that handed the order in (nobody rewrote the account)
        obj = inf["obj"] if inf else None
        by = mon.returned_by.get(id(obj)) if obj is not None else None
        if by is not None and by != log.agent_id and not self.owner_rewriters:
            mon.viol("C11", "notified_of_foreign_order", {"owner_in_record": log.agent_id, "handed_in_by": by,
                                                         "order_id": log.order_id, "market": mm.name})

    def on_cancel_log(self, mon, log, o, mm, market):
        self.truth.append(("C", log))

    def post_round(self, mon, market, mm, fills, rnd):
        for f in fills:
            self.truth.append(("E", f))

    def finish(self, mon, completed):
        want: Counter = Counter()
        for c, log in self.truth:
            if c == "O":
                want[(log.agent_id, "submitted", id(log))] += 1
            elif c == "C":
                want[(log.agent_id, "canceled", id(log))] += 1
            else:
                want[(log.buy_agent_id, "executed", id(log))] += 1
                want[(log.sell_agent_id, "executed", id(log))] += 1
        got = Counter({k: v for k, v in self.calls.items()})
        if mon.aborted:
            # in-flight relaxation: the operation in flight at the abort may lack its callbacks
            for k in list(want.keys()):
                if got.get(k, 0) < want[k]:
                    want[k] = got.get(k, 0)
                    break
        for k, n in want.items():
            if k[0] not in self.recording:
                continue
            if got.get(k, 0) != n:
                mon.viol("C11", "callback_count", {"agent": k[0], "kind": k[1], "got": got.get(k, 0), "want": n})
                break
        for k, n in got.items():
            if want.get(k, 0) != n:
                mon.viol("C11", "callback_count", {"agent": k[0], "kind": k[1], "got": n, "want": want.get(k, 0)})
                break


# ====================================================================== C13
class HooksPlugin(Plugin):
    def attach(self, mon):
        self.calls: Dict[Tuple, Counter] = {}
        self.occ: Dict[Tuple[str, bool], List[Tuple[int, int]]] = {}
        self.last_alter = None
        self.armed: Dict[str, List[Tuple]] = {}
        self.total_steps = sum(int(s_["iterationSteps"]) for s_ in mon.sessions_cfg)
        self.sesb_seen = set()
        self.stb_seen = set()
        self.name2market = dict(mon.sim.name2market)

    def _occ(self, kind, before, t, mid):
        self.occ.setdefault((kind, before), []).append((t, mid))

    def on_probe_call(self, mon, name, kind, before, obj):
        sim = mon.sim
        if kind == "order":
            mid = obj.market_id
            t = sim.id2market[mid].get_time() if before else obj.time
            if before:
                if obj.order_id is not None or obj.placed_at is not None or id(obj) in mon.obj2mo:
                    mon.viol("C13", "before_order_hook_ran_late", {"probe": name})
                if mon.inflight is not None and mon.inflight.get("k") == "add":
                    mon.viol("C13", "before_order_hook_ran_late", {"probe": name, "inflight": True})
        elif kind == "cancel":
            mid = obj.market_id
            t = sim.id2market[mid].get_time() if before else obj.cancel_time
            if before:
                mo = mon.obj2mo.get(id(obj.order))
                # a cancel object handed in a second time carries the stamp of its first submission
                again = id(obj) in mon.cancel_objs
                if obj.placed_at is not None and not again:
                    mon.viol("C13", "before_cancel_hook_ran_late", {"probe": name})
                if mo is not None and mo.status == "live" and obj.order.is_canceled:
                    mon.viol("C13", "before_cancel_hook_ran_late", {"probe": name, "order": mo.brief()})
        elif kind == "execution":
            mid = obj.market_id
            t = obj.time
        elif kind == "session":
            mid = -1
            t = obj.session_start_time if before else obj.session_start_time + obj.iteration_steps - 1
            if before and obj.session_id in self.sesb_seen:
                mon.viol("C13", "before_session_hook_ran_late", {"probe": name, "session": obj.session_id})
        else:
            mid = obj.market_id
            t = obj.get_time()
            if before and (mid, t) in self.stb_seen:
                mon.viol("C13", "before_step_hook_ran_late", {"probe": name, "market": obj.name, "t": t})
        self.calls.setdefault((name, kind, before), Counter())[(t, mid)] += 1
        mon.stat("probe_calls")

    def on_probe_altered(self, mon, name, order):
        self.last_alter = (id(order), order.price)

    def on_probe_armed(self, mon, name, hook):
        # a hook registered while the run is in progress counts from the next occurrence on
        key = (hook["kind"], bool(hook["before"]))
        self.armed.setdefault(name, []).append((key, len(self.occ.get(key, [])), hook))

    def on_written(self, mon, log, code, channel, first):
        if code == "SesB":
            self.sesb_seen.add(log.session.session_id)
            self._occ("session", True, log.session.session_start_time, -1)
        if code == "SesE":
            s = log.session
            self._occ("session", False, s.session_start_time + s.iteration_steps - 1, -1)

    def on_tap(self, mon, idx, phase, kind, obj):
        # a run without a logger has no begin/end records: session and step occurrences then come from the
        # first tap (an always-hook of the harness itself)
        if mon.retain or idx != 0 or phase != "n":
            return
        if kind == "session_before":
            self._occ("session", True, obj.session_start_time, -1)
        elif kind == "session_after":
            self._occ("session", False, obj.session_start_time + obj.iteration_steps - 1, -1)


    def post_tick(self, mon, market, mm, t):
        # without a logger the market steps are counted from the clock itself (every market takes every step),
        # not from hooks - the harness's own taps are hooks and would share a dispatch fault
        if not mon.retain and 0 <= t < self.total_steps:
            self._occ("market", True, t, market.market_id)
            self._occ("market", False, t, market.market_id)

    def on_step_record(self, mon, log, code):
        m = log.market
        if code == "StB":
            self.stb_seen.add((m.market_id, m.get_time()))
            self._occ("market", True, m.get_time(), m.market_id)
        else:
            self._occ("market", False, m.get_time(), m.market_id)

    def on_order_log(self, mon, log, o, mm, market, inf):
        self._occ("order", True, log.time, log.market_id)
        self._occ("order", False, log.time, log.market_id)
        if self.last_alter is not None and inf is not None and self.last_alter[0] == id(inf["obj"]):
            if inf["price"] != self.last_alter[1]:
                mon.viol("C13", "alteration_lost", {"altered_to": self.last_alter[1], "handed_to_market": inf["price"]})
            self.last_alter = None

    def on_cancel_log(self, mon, log, o, mm, market):
        self._occ("cancel", True, log.cancel_time, log.market_id)
        self._occ("cancel", False, log.cancel_time, log.market_id)

    def post_round(self, mon, market, mm, fills, rnd):
        for f in fills:
            self._occ("execution", False, f.time, f.market_id)

    def finish(self, mon, completed):
        specs = mon.ext.get("probe_specs", {})
        classes = {"Market": Market, "IndexMarket": IndexMarket}
        configured = Counter(e for s_ in mon.sessions_cfg for e in (s_.get("events") or []))
        for name, spec in specs.items():
            if name not in configured:
                continue  # a probe spec without a configured event (e.g. after minimisation)
            n_inst = configured[name]  # an entry listed in several sessions gives one instance per listing
            per: Dict[Tuple[str, bool], Counter] = {}
            for h in spec.get("hooks", []):
                key = (h["kind"], bool(h["before"]))
                cnt = per.setdefault(key, Counter())
                times = None if h.get("times") is None else set(h["times"])
                for (t, mid) in self.occ.get(key, []):
                    if times is not None and t not in times:
                        continue
                    if h["kind"] == "market":
                        mk = mon.sim.id2market[mid]
                        if h.get("cls"):
                            cname = h["cls"]
                            if cname in ("IndexMarket", "TapIndexMarket"):
                                ok = isinstance(mk, IndexMarket)
                            elif cname == "TapMarket":
                                ok = type(mk).__name__ == "TapMarket"
                            else:
                                ok = isinstance(mk, Market)
                            if not ok:
                                continue
                        if h.get("inst") and self.name2market[h["inst"]] is not mk:
                            continue
                    cnt[(t, mid)] += n_inst
            for key, start, h in self.armed.get(name, []):
                cnt = per.setdefault(key, Counter())
                times = None if h.get("times") is None else set(h["times"])
                for (t, mid) in self.occ.get(key, [])[start:]:
                    if times is None or t in times:
                        cnt[(t, mid)] += 1
            kinds = set(per.keys()) | {(k[1], k[2]) for k in self.calls if k[0] == name}
            for key in sorted(kinds):
                want = +per.get(key, Counter())
                got = +self.calls.get((name, key[0], key[1]), Counter())
                if mon.aborted:
                    # in-flight relaxation: a before-hook may have fired for the rejected operation
                    diff = got - want
                    if sum(diff.values()) <= 1 and not (want - got) or sum((want - got).values()) <= 1 and not diff:
                        continue
                if want != got:
                    extra = got - want
                    missing = want - got
                    mon.viol("C13", "hook_invocations",
                             {"probe": name, "hook": f"{key[0]}_{'before' if key[1] else 'after'}",
                              "extra": sorted(extra.items())[:5], "missing": sorted(missing.items())[:5],
                              "n_want": sum(want.values()), "n_got": sum(got.values())})
                    break



# ====================================================================== C17
class IndexPlugin(Plugin):
    def attach(self, mon):
        self.idx = [m for m in mon.markets if isinstance(m, IndexMarket)]
        self.n = 0
        self.w_at_advance: Dict[int, List[int]] = {}
        self.mon_ = mon
        self.comp_reported = False
        self.configured: Dict[str, List[Any]] = {}
        cfg = mon.ext.get("cfg") or {}
        for im in self.idx:
            names = (cfg.get(im.name) or {}).get("markets") if isinstance(cfg.get(im.name), dict) else None
            if names and all(n_ in mon.sim.name2market for n_ in names):
                self.configured[im.name] = [mon.sim.name2market[n_] for n_ in names]

    def _weights(self, im):
        comps = im.get_components()
        conf = self.configured.get(im.name)
        if conf is not None:
            # the components are the configured ones, for the whole run (nobody may trim or extend the list)
            if [c.name for c in comps] != [c.name for c in conf] and not self.comp_reported:
                self.comp_reported = True
                self.mon_.viol("C17", "components_changed", {"index": im.name, "configured": [c.name for c in conf],
                                                             "now": [c.name for c in comps]})
            comps = conf
        return comps, [c.outstanding_shares for c in comps]

    def check_values(self, mon, where, all_times=False):
        for im in self.idx:
            now = im.get_time()
            if now < 0:
                continue
            comps, w = self._weights(im)
            W = sum(w)
            times = range(0, now + 1) if all_times else sorted({now, now // 2, 0, max(0, now - 1)})
            for s in times:
                if any(c.get_time() < s for c in comps):
                    continue
                want = sum(c.get_market_price(s) * ww for c, ww in zip(comps, w)) / W
                terms = sum(abs(c.get_market_price(s) * ww) for c, ww in zip(comps, w)) / W
                for g in (im.get_index, im.get_market_index, im.compute_market_index):
                    got = g(s)
                    if not close(got, want, REL, terms):
                        mon.viol("C17", "index_value", {"index": im.name, "time": s, "getter": g.__name__, "got": got, "want": want, "where": where})
                # the fundamental index recomputed for a past time is the same average of what the
                # components record for that time (pure recomputation; shocks change both sides alike)
                fw = sum(c.get_fundamental_price(s) * ww for c, ww in zip(comps, w)) / W
                fg = im.compute_fundamental_index(s)
                if not close(fg, fw, REL, sum(abs(c.get_fundamental_price(s) * ww) for c, ww in zip(comps, w)) / W):
                    mon.viol("C17", "index_fundamental", {"index": im.name, "time": s, "getter": "compute_fundamental_index", "got": fg, "want": fw, "where": where})
            mon.stat("index_checks")
            if len(set(w)) > 1:
                mon.probe("unequal_weights_checked")

    def post_tick(self, mon, market, mm, t):
        if isinstance(market, IndexMarket):
            self.w_at_advance[id(market)] = [c.outstanding_shares for c in self.configured.get(market.name, market.get_components())]

    def check_fundamental(self, mon, where):
        for im in self.idx:
            now = im.get_time()
            comps, w = self._weights(im)
            # the recorded value was computed when the clock advanced: with the shares of that moment
            w = self.w_at_advance.get(id(im), w)
            W = sum(w)
            try:
                vals = [c.get_fundamental_price(now) for c in comps]
            except Exception as e:
                mon.viol("C17", "component_not_stepped_before_index", {"index": im.name, "now": now, "exc": repr(e)})
                continue
            want = sum(v * ww for v, ww in zip(vals, w)) / W
            got = im.get_fundamental_price(now)
            if not close(got, want, REL, sum(abs(v * ww) for v, ww in zip(vals, w)) / W):
                mon.viol("C17", "index_fundamental", {"index": im.name, "time": now, "got": got, "want": want, "where": where})
            if not close(im.get_fundamental_index(now), got, 0.0):
                mon.viol("C17", "index_fundamental", {"index": im.name, "time": now, "getter": "get_fundamental_index"})
            mon.stat("index_fundamental_checks")

    def on_tap(self, mon, idx, phase, kind, obj):
        if idx == 0 and phase == "n" and kind == "market_before" and obj is mon.markets[0]:
            self.check_fundamental(mon, "first hook after clock advance")

    def observe(self, mon, where):
        self.n += 1
        if where in ("StB", "StE", "consult", "execution_after") or self.n % 5 == 0:
            self.check_values(mon, where)

    def finish(self, mon, completed):
        if completed:
            self.check_values(mon, "end", all_times=True)
            self.check_fundamental(mon, "end")
            self.hostile_components(mon)

    def hostile_components(self, mon):
        """after the run: the component entry points asked, directly, to take a market twice."""
        for im in self.idx:
            comps = im.get_components()
            fresh = [m for m in mon.markets if m is not im and m not in comps and not isinstance(m, IndexMarket)
                     and m.outstanding_shares is not None]
            attempts = [("_add_market", lambda: im._add_market(market=comps[0])),
                        ("_add_markets", lambda: im._add_markets(markets=[comps[-1]]))]
            if fresh:
                x = fresh[0]
                attempts.append(("_add_markets", lambda: im._add_markets(markets=[x, x])))
                attempts.append(("_add_markets", lambda: im._add_markets(markets=[x, comps[0]])))
            for nm, call in attempts:
                if not hasattr(im, nm):
                    continue
                n0 = len(im.get_components())
                try:
                    call()
                except (ValueError, AssertionError):
                    if len(im.get_components()) != len(set(map(id, im.get_components()))):
                        mon.viol("C17", "duplicate_component_accepted", {"index": im.name, "via": nm, "rejected_but_kept": True})
                    mon.probe("duplicate_component_refused")
                    # a rejected call may have registered the distinct part of its argument; not judged
                    continue
                cs = im.get_components()
                if len(cs) != len(set(map(id, cs))):
                    mon.viol("C17", "duplicate_component_accepted", {"index": im.name, "via": nm, "components": [c.name for c in cs]})
                    return
