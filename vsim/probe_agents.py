"""Probe subclasses of the built-in agents (C20): call super().submit_orders and record inputs/outputs."""
from typing import Dict


def make(ctx) -> Dict[str, type]:
    from . import oracles_c20
    return oracles_c20.make_probe_agents(ctx)
