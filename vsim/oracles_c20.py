"""C20: probe subclasses of the built-in agents (call super().submit_orders, record inputs, draws and
outputs) and the reference strategies they are compared with.
"""
import math
import random
from typing import Tuple, Any, Dict, List, Optional

from . import env  # noqa: F401
from .monitor import Plugin, close, REL

from pams.agents.arbitrage_agent import ArbitrageAgent  # noqa: E402
from pams.agents.fcn_agent import FCNAgent  # noqa: E402
from pams.agents.market_maker_agent import MarketMakerAgent  # noqa: E402
from pams.agents.market_share_fcn_agent import MarketShareFCNAgent  # noqa: E402
from pams.agents.test_agent import TestAgent  # noqa: E402
from pams.index_market import IndexMarket  # noqa: E402
from pams.order import LIMIT_ORDER, MARKET_ORDER, Cancel, Order  # noqa: E402


class RecordingRandom(random.Random):
    """random.Random with identical state that records top-level draws."""

    def __init__(self):
        super().__init__(0)
        self.log: List = []
        self._depth = 0

    def _rec(self, name, fn, *a, **k):
        self._depth += 1
        try:
            v = fn(*a, **k)
        finally:
            self._depth -= 1
        if self._depth == 0:
            self.log.append((name, v))
        return v

    def gauss(self, mu=0.0, sigma=1.0):
        return self._rec("gauss", super().gauss, mu, sigma)

    def random(self):
        if self._depth > 0:
            return super().random()
        return self._rec("random", super().random)

    def randint(self, a, b):
        return self._rec("randint", super().randint, a, b)

    def choices(self, population, weights=None, *, cum_weights=None, k=1):
        self._depth += 1
        try:
            v = super().choices(population, weights=weights, cum_weights=cum_weights, k=k)
        finally:
            self._depth -= 1
        if self._depth == 0:
            self.log.append(("choices", [getattr(x, "market_id", x) for x in v]))
        return v


def market_state(agent, markets) -> Dict[int, Dict[str, Any]]:
    st = {}
    for m in markets:
        if not agent.is_market_accessible(m.market_id):
            continue
        t = m.get_time()
        st[m.market_id] = {
            "t": t, "price": m.get_market_price(), "fund": m.get_fundamental_price(),
            "bid": m.get_best_buy_price(), "ask": m.get_best_sell_price(), "running": m.is_running,
            "tick": m.tick_size, "is_index": isinstance(m, IndexMarket),
        }
    return st


def make_probe_agents(ctx) -> Dict[str, type]:
    mon = ctx.mon

    class ProbeMixin:
        _vsim_probe = True
        _kind = "?"

        def __init__(self, agent_id, prng, simulator, name, logger=None):
            rr = RecordingRandom()
            rr.setstate(prng.getstate())
            super().__init__(agent_id=agent_id, prng=rr, simulator=simulator, name=name, logger=logger)

        def setup(self, settings, accessible_markets_ids, *a, **k):
            mon.ext.setdefault("built_settings", {})[self.name] = dict(settings)
            super().setup(settings, accessible_markets_ids, *a, **k)

        def submit_orders(self, markets):
            st = market_state(self, markets)
            self.prng.log = []
            mon.rec("Q", self.agent_id, markets[0].get_time() if markets else -1)
            mon.stat("consults")
            out = super().submit_orders(markets)
            mon.agent_decision(self, self._kind, st, list(self.prng.log), out, markets)
            return out

        def submitted_order(self, log):
            mon.on_callback(self, "submitted", log)
            super().submitted_order(log)

        def executed_order(self, log):
            mon.on_callback(self, "executed", log)
            super().executed_order(log)

        def canceled_order(self, log):
            mon.on_callback(self, "canceled", log)
            super().canceled_order(log)

    class ProbeFCN(ProbeMixin, FCNAgent):
        _kind = "fcn"

    class ProbeMSFCN(ProbeMixin, MarketShareFCNAgent):
        _kind = "msfcn"

    class ProbeMM(ProbeMixin, MarketMakerAgent):
        _kind = "mm"

    class ProbeArb(ProbeMixin, ArbitrageAgent):
        _kind = "arb"

    class ProbeTest(ProbeMixin, TestAgent):
        _kind = "test"

    return {c.__name__: c for c in (ProbeFCN, ProbeMSFCN, ProbeMM, ProbeArb, ProbeTest)}


class AgentsPlugin(Plugin):
    """reference strategies (DESIGN.md C20)."""

    def attach(self, mon):
        self.n = 0
        # the markets every agent was *given* (set-up has just finished): the reference for "markets they can
        # access", whatever the agents' own bookkeeping says later
        self.granted = {a.agent_id: {m.market_id for m in mon.markets if a.is_market_accessible(m.market_id)}
                        for a in mon.agents}

    def finish(self, mon, completed):
        """after the run (no draw of the run is disturbed any more): the per-market entry point of the FCN family
        asked directly for a market the agent was not given - it has to decline."""
        if not completed:
            return
        for a in mon.agents:
            fn = getattr(a, "submit_orders_by_market", None)
            if fn is None or not getattr(a, "_vsim_probe", False):
                continue
            for m in mon.markets:
                if m.market_id in self.granted.get(a.agent_id, ()) or not m.is_running:
                    continue
                try:
                    out = fn(market=m)
                except Exception:
                    continue
                mon.probe("per_market_entry_point_asked_for_inaccessible_market")
                if out:
                    mon.viol("C20", "malformed_order", {"agent": a.name, "why": "market not accessible",
                                                        "entry_point": "submit_orders_by_market", "market": m.name,
                                                        "order": repr(out[0])})
                    return

    # every order an agent returns is well-formed
    def well_formed(self, mon, agent, out, ttl=None):
        ok = True
        for o in out:
            if not isinstance(o, Order):
                if isinstance(o, Cancel):
                    continue
                mon.viol("C20", "returned_non_order", {"agent": agent.name, "obj": repr(o)})
                ok = False
                continue
            bad = None
            if o.agent_id != agent.agent_id:
                bad = "foreign agent id"
            elif o.market_id not in self.granted.get(agent.agent_id, ()) or not agent.is_market_accessible(o.market_id):
                bad = "market not accessible"
            elif o.order_id is not None or o.placed_at is not None:
                bad = "id/placed_at pre-set"
            elif not isinstance(o.volume, int) or o.volume <= 0:
                bad = "volume"
            elif o.kind == LIMIT_ORDER and (o.price is None or not math.isfinite(o.price)):
                bad = "limit price"
            elif o.kind == MARKET_ORDER and o.price is not None:
                bad = "market order with price"
            elif o.ttl is not None and (not isinstance(o.ttl, int) or o.ttl <= 0):
                bad = "ttl"
            elif ttl is not None and o.ttl != ttl:
                bad = f"ttl {o.ttl} != configured {ttl}"
            elif o.is_canceled:
                bad = "cancelled flag"
            if bad:
                mon.viol("C20", "malformed_order", {"agent": agent.name, "why": bad, "order": repr(o)})
                ok = False
        return ok

    def fcn_expected(self, a, st, noise, market):
        t = st["t"]
        tw = min(t, a.time_window_size)
        price = st["price"]
        f_lr = (1.0 / max(a.mean_reversion_time, 1)) * math.log(st["fund"] / price)
        past = market.get_market_price(t - tw)
        c_lr = (1.0 / max(tw, 1)) * math.log(price / past)
        n_lr = a.noise_scale * noise
        W = a.fundamental_weight + a.chart_weight + a.noise_weight
        lr = (a.fundamental_weight * f_lr + a.chart_weight * c_lr * (1 if a.is_chart_following else -1) + a.noise_weight * n_lr) / W
        return price * math.exp(lr * a.time_window_size), c_lr, f_lr

    def check_fcn_market(self, mon, a, st, noise, market, orders, margin_noise=None):
        price = st["price"]
        exp_p, c_lr, f_lr = self.fcn_expected(a, st, noise, market)
        eps = 1e-9 * price
        fixed = (a.margin_type == 0)
        if c_lr != 0.0 and a.chart_weight > 0:
            mon.probe("fcn_chart_term_nonzero")
        if f_lr != 0.0 and a.fundamental_weight > 0:
            mon.probe("fcn_fund_term_nonzero")
        buys = [o for o in orders if o.is_buy]
        sells = [o for o in orders if not o.is_buy]
        if exp_p > price + eps:
            want_side = "b"
        elif exp_p < price - eps:
            want_side = "s"
        else:
            want_side = None
            mon.probe("fcn_dead_band")
        if want_side == "b":
            mon.probe("fcn_buy")
            if len(buys) != 1 or sells:
                mon.viol("C20", "fcn_side", {"agent": a.name, "expected_price": exp_p, "market_price": price,
                                             "orders": [repr(o) for o in orders]})
                return
            o = buys[0]
            want = exp_p * (1 - a.order_margin) if fixed else (exp_p + margin_noise * a.order_margin)
        elif want_side == "s":
            mon.probe("fcn_sell")
            if len(sells) != 1 or buys:
                mon.viol("C20", "fcn_side", {"agent": a.name, "expected_price": exp_p, "market_price": price,
                                             "orders": [repr(o) for o in orders]})
                return
            o = sells[0]
            want = exp_p * (1 + a.order_margin) if fixed else (exp_p + margin_noise * a.order_margin)
        else:
            if len(orders) > 1:
                mon.viol("C20", "fcn_side", {"agent": a.name, "expected_price": exp_p, "market_price": price, "n": len(orders)})
            return
        if o.kind != LIMIT_ORDER or o.volume != 1 or o.ttl != a.time_window_size or o.market_id != market.market_id:
            mon.viol("C20", "fcn_order_shape", {"agent": a.name, "order": repr(o), "ttl_want": a.time_window_size})
        if not close(o.price, want, 1e-9):
            mon.viol("C20", "fcn_price", {"agent": a.name, "got": o.price, "want": want, "expected_future_price": exp_p,
                                          "margin": a.order_margin, "fixed": fixed, "market_price": price})
        if a.order_margin in (0.0, 0.9, 1.0):
            mon.probe("fcn_margin_extreme")
        if a.time_window_size == 1:
            mon.probe("fcn_window_1")

    def decide(self, mon, agent, kind, st, draws, out, markets):
        self.n += 1
        mon.stat("agent_decisions")
        id2m = {m.market_id: m for m in markets}
        if kind == "fcn":
            self.well_formed(mon, agent, out, ttl=agent.time_window_size)
            acc = [m for m in markets if agent.is_market_accessible(m.market_id)]
            per = 1 if agent.margin_type == 0 else 2
            g = [d for d in draws if d[0] == "gauss"]
            if len(g) != per * len(acc):
                mon.viol("C20", "fcn_draws", {"agent": agent.name, "gauss_draws": len(g), "markets": len(acc)})
                return
            for i, m in enumerate(acc):
                orders = [o for o in out if isinstance(o, Order) and o.market_id == m.market_id]
                noise = g[per * i][1]
                mn = g[per * i + 1][1] if per == 2 else None
                self.check_fcn_market(mon, agent, st[m.market_id], noise, m, orders, mn)
            extra = [o for o in out if isinstance(o, Order) and o.market_id not in {m.market_id for m in acc}]
            if extra:
                mon.viol("C20", "order_for_inaccessible_market", {"agent": agent.name})
        elif kind == "msfcn":
            self.well_formed(mon, agent, out, ttl=agent.time_window_size)
            ch = [d for d in draws if d[0] == "choices"]
            g = [d for d in draws if d[0] == "gauss"]
            mids = {o.market_id for o in out if isinstance(o, Order)}
            if len(mids) > 1:
                mon.viol("C20", "msfcn_several_markets", {"agent": agent.name, "markets": sorted(mids)})
                return
            if len(ch) != 1:
                mon.viol("C20", "msfcn_draws", {"agent": agent.name, "choices": len(ch)})
                return
            chosen = ch[0][1][0]
            if mids and chosen not in mids:
                mon.viol("C20", "msfcn_orders_not_for_chosen_market", {"agent": agent.name, "chosen": chosen, "orders_for": sorted(mids)})
            # the chosen market has positive recent volume whenever some accessible market has
            vols = {}
            for mid in st:
                m = id2m[mid]
                t = m.get_time()
                vols[mid] = sum(m.get_executed_volumes(range(max(0, t - agent.time_window_size), t + 1)))
            if any(v > 0 for v in vols.values()):
                mon.probe("msfcn_some_market_has_volume")
                if vols.get(chosen, 0) == 0:
                    mon.viol("C20", "msfcn_chose_market_without_volume", {"agent": agent.name, "chosen": chosen, "volumes": vols})
            per = 1 if agent.margin_type == 0 else 2
            if len(g) == per and chosen in st:
                orders = [o for o in out if isinstance(o, Order)]
                self.check_fcn_market(mon, agent, st[chosen], g[0][1], id2m[chosen], orders, g[1][1] if per == 2 else None)
        elif kind == "mm":
            self.well_formed(mon, agent, out, ttl=agent.order_time_length)
            tm = agent.target_market
            orders = [o for o in out if isinstance(o, Order)]
            buys = [o for o in orders if o.is_buy]
            sells = [o for o in orders if not o.is_buy]
            if len(buys) != 1 or len(sells) != 1 or any(o.market_id != tm.market_id for o in orders):
                mon.viol("C20", "mm_not_one_buy_one_sell", {"agent": agent.name, "orders": [repr(o) for o in orders]})
                return
            bids = [s["bid"] for s in st.values() if s["bid"] is not None]
            asks = [s["ask"] for s in st.values() if s["ask"] is not None]
            if bids and asks:
                base = (max(bids) + min(asks)) / 2.0
                mon.probe("mm_base_from_quotes")
            else:
                base = tm.get_market_price() if tm.market_id not in st else st[tm.market_id]["price"]
                mon.probe("mm_base_from_market_price")
            fund = tm.get_fundamental_price()
            spread = fund * agent.net_interest_spread
            b, s = buys[0], sells[0]
            scale = max(abs(base), abs(spread), 1.0)
            if not close(s.price - b.price, spread, 1e-9, scale):
                mon.viol("C20", "mm_spread", {"agent": agent.name, "sell": s.price, "buy": b.price, "want_spread": spread})
            if not close((s.price + b.price) / 2.0, base, 1e-9, scale):
                mon.viol("C20", "mm_not_symmetric_around_base", {"agent": agent.name, "sell": s.price, "buy": b.price, "base": base})
            if b.volume != 1 or s.volume != 1 or b.kind != LIMIT_ORDER or s.kind != LIMIT_ORDER:
                mon.viol("C20", "mm_order_shape", {"agent": agent.name})
        elif kind == "arb":
            self.well_formed(mon, agent, out, ttl=agent.order_time_length)
            orders = [o for o in out if isinstance(o, Order)]
            want_total: List[Tuple] = []
            undecided = False
            acted_on_index = False
            for m in markets:
                if not isinstance(m, IndexMarket) or not agent.is_market_accessible(m.market_id):
                    continue
                comps = m.get_components()
                mine = [o for o in orders if o.market_id == m.market_id]
                if not m.is_running or not all(c.is_running for c in comps):
                    mon.probe("arb_not_running")
                    if mine:
                        mon.viol("C20", "arb_acted_while_not_running", {"agent": agent.name})
                    continue
                if not all(agent.is_market_accessible(c.market_id) for c in comps):
                    # no hedged basket exists within the markets the agent can access: it has to leave this index alone
                    mon.probe("arb_index_with_inaccessible_component")
                    if mine:
                        mon.viol("C20", "arb_basket", {"agent": agent.name, "index": m.name, "acted_without_access_to_every_component": True})
                    continue
                idx = m.get_index()
                px = m.get_market_price()
                gap = px - idx
                thr = agent.order_threshold_price
                eps = 1e-9 * max(abs(px), abs(idx), 1.0)
                n = len(comps)
                v = agent.order_volume
                if abs(gap) > thr + eps:
                    cheap_index = gap < 0  # index market price below computed index: buy the index, sell components
                    mon.probe("arb_basket_buy_index" if cheap_index else "arb_basket_sell_index")
                    acted_on_index = True
                    if len(mine) != 1:
                        mon.viol("C20", "arb_basket", {"agent": agent.name, "index": m.name, "index_orders": len(mine), "gap": gap, "threshold": thr})
                        undecided = True
                        continue
                    io = mine[0]
                    if not (io.is_buy == cheap_index and io.volume == n * v and io.kind == LIMIT_ORDER and close(io.price, px, 1e-12)):
                        mon.viol("C20", "arb_basket", {"agent": agent.name, "index": m.name, "gap": gap, "threshold": thr, "n": n, "v": v,
                                                       "index_order": repr(io)})
                    # one order of v on the opposite side on each component, priced at the component's market price
                    for c in comps:
                        want_total.append((c.market_id, not cheap_index, v, c.get_market_price()))
                elif abs(gap) < thr - eps:
                    mon.probe("arb_below_threshold")
                    if mine:
                        mon.viol("C20", "arb_acted_below_threshold", {"agent": agent.name, "index": m.name, "gap": gap, "threshold": thr})
                else:
                    mon.probe("arb_on_threshold")
                    undecided = True
            if not undecided:
                # the component legs of all baskets together (an agent may see several index markets, sharing components)
                got_c = sorted((o.market_id, o.is_buy, o.volume, o.price) for o in orders if not isinstance(id2m[o.market_id], IndexMarket))
                want_c = sorted(want_total)
                ok = len(got_c) == len(want_c) and all(
                    g[:3] == w_[:3] and close(g[3], w_[3], 1e-12) for g, w_ in zip(got_c, want_c))
                ok = ok and all(o.kind == LIMIT_ORDER for o in orders)
                if not ok:
                    kind_ = "arb_basket" if acted_on_index else "arb_acted_below_threshold"
                    mon.viol("C20", kind_, {"agent": agent.name, "component_orders": [list(x) for x in got_c][:8],
                                            "want": [list(x) for x in want_c][:8]})
                if len([1 for m in markets if isinstance(m, IndexMarket) and agent.is_market_accessible(m.market_id)]) >= 2 and want_c:
                    mon.probe("arb_basket_with_several_indexes")
        elif kind == "test":
            self.well_formed(mon, agent, out)
            mon.probe("test_agent_decision")


def _agent_decision(self, agent, kind, st, draws, out, markets):
    for p in self.plugins:
        if isinstance(p, AgentsPlugin):
            p.decide(self, agent, kind, st, draws, out, markets)


from .monitor import Monitor  # noqa: E402

Monitor.agent_decision = _agent_decision
