def make_probe_agents(ctx):
    return {}
