"""Small executable reference model: order books, price state, step counters, ledger.

The model is fed by the *observed* event stream (what the market reported through the logger and
through the return values of the entry points the runner calls) and validates it; see DESIGN.md 2.4.
"""
from typing import Dict, List, Optional, Tuple


class MOrder:
    __slots__ = (
        "oid", "mkt", "agent", "is_buy", "is_mkt", "price", "vol0", "rem", "placed_at", "ttl",
        "status", "filled", "term_vol", "term_kind", "obj", "seq", "sub_price", "last_fill_t",
        "n_exp", "n_cancel",
    )

    def __init__(self, oid, mkt, agent, is_buy, is_mkt, price, vol, placed_at, ttl, obj, seq):
        self.oid = oid
        self.mkt = mkt
        self.agent = agent
        self.is_buy = is_buy
        self.is_mkt = is_mkt
        self.price = price
        self.vol0 = vol
        self.rem = vol
        self.placed_at = placed_at
        self.ttl = ttl
        self.status = "live"  # live | filled | cancelled | expired
        self.filled = 0
        self.term_vol = None  # volume reported at first terminal record
        self.term_kind = None
        self.obj = obj
        self.seq = seq
        self.sub_price = None
        self.last_fill_t = None
        self.n_exp = 0
        self.n_cancel = 0

    def rank(self) -> Tuple:
        """priority key within its side: smaller = higher priority."""
        if self.is_mkt:
            return (0, 0.0, self.placed_at, self.oid)
        return (1, -self.price if self.is_buy else self.price, self.placed_at, self.oid)

    def brief(self):
        return [self.oid, "B" if self.is_buy else "S", "M" if self.is_mkt else self.price, self.rem,
                self.placed_at, self.ttl, self.status]


class MMarket:
    """model of one market."""

    def __init__(self, market_id: int, name: str, tick: float, p0: float, is_index: bool):
        self.id = market_id
        self.name = name
        self.tick = tick
        self.is_index = is_index
        self.orders: Dict[int, MOrder] = {}
        self.buy: Dict[int, MOrder] = {}
        self.sell: Dict[int, MOrder] = {}
        # price state
        self.p0 = p0
        self.mp: Optional[float] = None  # market price now (None until t=0 seen)
        self.mid: Optional[float] = None
        self.last: Optional[float] = None  # last trade price (ever)
        self.traded = False
        self.time = -1
        # per-step counters
        self.exec_vol: Dict[int, int] = {}
        self.turnover_terms: Dict[int, List[float]] = {}
        self.n_buy: Dict[int, int] = {}
        self.n_sell: Dict[int, int] = {}
        self.next_oid_seen = -1
        self.n_fills = 0
        self.diverged = False
        # expiries announced during the current clock advance
        self.exp_this_tick: List[int] = []

    def side(self, is_buy: bool) -> Dict[int, MOrder]:
        return self.buy if is_buy else self.sell

    def sorted_side(self, is_buy: bool) -> List[MOrder]:
        return sorted(self.side(is_buy).values(), key=MOrder.rank)

    def best(self, is_buy: bool) -> Optional[MOrder]:
        d = self.side(is_buy)
        if not d:
            return None
        return min(d.values(), key=MOrder.rank)

    def best_price(self, is_buy: bool) -> Optional[float]:
        b = self.best(is_buy)
        if b is None or b.is_mkt:
            return None
        return b.price

    def depth(self, is_buy: bool) -> List[Tuple[Optional[float], int]]:
        """[(price or None, volume)] best-first, market orders (None) first."""
        agg: Dict[Optional[float], int] = {}
        for o in self.side(is_buy).values():
            k = None if o.is_mkt else o.price
            agg[k] = agg.get(k, 0) + o.rem
        keys = [k for k in agg if k is not None]
        keys.sort(reverse=is_buy)
        out: List[Tuple[Optional[float], int]] = []
        if None in agg:
            out.append((None, agg[None]))
        out.extend((k, agg[k]) for k in keys)
        return out

    def calc_mid(self) -> Optional[float]:
        b = self.best_price(True)
        a = self.best_price(False)
        if b is None or a is None:
            return None
        return (a + b) / 2.0

    def add(self, o: MOrder) -> None:
        self.orders[o.oid] = o
        self.side(o.is_buy)[o.oid] = o

    def drop(self, o: MOrder) -> None:
        self.side(o.is_buy).pop(o.oid, None)

    def book_sig(self):
        """abstract state signature for reach measurement."""
        def s(is_buy):
            out = []
            for i, o in enumerate(self.sorted_side(is_buy)[:6]):
                out.append(("M" if o.is_mkt else i, min(o.rem, 3)))
            return tuple(out)
        return (s(True), s(False))


class Ledger:
    def __init__(self):
        self.cash: Dict[int, float] = {}
        self.cash_abs: Dict[int, float] = {}
        self.shares: Dict[int, Dict[int, int]] = {}
        self.total_cash0 = 0.0
        self.total_shares0: Dict[int, int] = {}
        self.flow_abs = 0.0

    def endow(self, agent_id: int, cash: float, shares: Dict[int, int]) -> None:
        self.cash[agent_id] = cash
        self.cash_abs[agent_id] = abs(cash)
        self.shares[agent_id] = dict(shares)

    def close_endowment(self) -> None:
        self.total_cash0 = sum(self.cash[a] for a in sorted(self.cash))
        tot: Dict[int, int] = {}
        for a in sorted(self.shares):
            for m, v in self.shares[a].items():
                tot[m] = tot.get(m, 0) + v
        self.total_shares0 = tot

    def fill(self, mkt: int, buyer: int, seller: int, price: float, vol: int) -> None:
        amt = price * vol
        self.cash[buyer] -= amt
        self.cash[seller] += amt
        self.cash_abs[buyer] += abs(amt)
        self.cash_abs[seller] += abs(amt)
        self.flow_abs += abs(amt)
        self.shares[buyer][mkt] = self.shares[buyer].get(mkt, 0) + vol
        self.shares[seller][mkt] = self.shares[seller].get(mkt, 0) - vol
