"""Harness parties: recording logger, tap markets, scripted agents (user-written agent programs),
tap and probe events (user-written events).  Every class is an ordinary pams extension created
through the public extension points (class_register / subclassing); all of them call super() and
change nothing about pams' behaviour.  Classes are created per run and bound to the run context.
"""
import random
from typing import Any, Dict, List, Optional

from . import env  # noqa: F401

import pams  # noqa: E402
from pams.agents.base import Agent  # noqa: E402
from pams.agents.high_frequency_agent import HighFrequencyAgent  # noqa: E402
from pams.events.base import EventABC, EventHook  # noqa: E402
from pams.fundamentals import Fundamentals  # noqa: E402
from pams.index_market import IndexMarket  # noqa: E402
from pams.logs.base import (CancelLog, ExecutionLog, ExpirationLog, Logger, MarketStepBeginLog,  # noqa: E402
                            MarketStepEndLog, OrderLog, SessionBeginLog, SessionEndLog,
                            SimulationBeginLog, SimulationEndLog)
from pams.market import Market  # noqa: E402
from pams.order import LIMIT_ORDER, MARKET_ORDER, Cancel, Order  # noqa: E402
from pams.simulator import Simulator  # noqa: E402

HOOK_KINDS = [("order", True), ("order", False), ("cancel", True), ("cancel", False), ("execution", False),
              ("session", True), ("session", False), ("market", True), ("market", False)]

LOG_CODE = {OrderLog: "O", CancelLog: "C", ExecutionLog: "E", ExpirationLog: "X", SimulationBeginLog: "SimB",
            SimulationEndLog: "SimE", SessionBeginLog: "SesB", SessionEndLog: "SesE", MarketStepBeginLog: "StB",
            MarketStepEndLog: "StE"}


class Ctx:
    """per-run context shared by the harness classes."""

    def __init__(self, scn: Dict[str, Any], mon):
        self.scn = scn
        self.mon = mon
        self.scripts: Dict[str, List] = scn.get("scripts", {})
        self.probes: Dict[str, Dict] = scn.get("probes", {})
        self.knobs: Dict[str, Any] = scn.get("knobs", {}) or {}
        self.total_steps = sum(int(s.get("iterationSteps", 0)) for s in
                               scn.get("config", {}).get("simulation", {}).get("sessions", [])
                               if isinstance(s, dict) and isinstance(s.get("iterationSteps", 0), int))
        self.tap_timed = False
        self.logger = None
        self.hostile_fired: List[str] = []
        self.global_draws = 0


def typed_fields(typ, is_buy, ttl):
    """user programs often compute order fields with NumPy or float arithmetic: the same values, other types."""
    import numpy as _np
    if typ == "np":
        return _np.bool_(is_buy), (None if ttl is None else _np.int64(ttl))
    if typ == "fl":
        return is_buy, (None if ttl is None else float(ttl))
    if typ == "fr":  # a lifetime that is not a whole number of steps: gone when the clock passes it
        return is_buy, (None if ttl is None else float(ttl) + 0.5)
    return is_buy, ttl


def cloned(order, typ):
    """order objects that went through a copy or a serialisation before submission (templates, orders built in
    another process): equal in every field, but no attribute is the identical object any more."""
    if typ == "dc":
        import copy as _copy
        return _copy.deepcopy(order)
    if typ == "pk":
        import pickle as _pickle
        return _pickle.loads(_pickle.dumps(order))
    return order


def log_code(log) -> str:
    for k, v in LOG_CODE.items():
        if type(log) is k:
            return v
    for k, v in LOG_CODE.items():
        if isinstance(log, k):
            return v
    return type(log).__name__


def check_entry_points() -> None:
    """the seams the harness wraps or calls must exist; otherwise stop with a harness error (exit 2)
    rather than let an oracle misread the run."""
    from pams.runners.sequential import SequentialRunner
    missing = []
    for cls, names in ((Market, ("setup", "_add_order", "_cancel_order", "_execution", "_update_time", "get_time",
                                 "get_market_price", "get_best_buy_price", "get_buy_order_book", "is_running")),
                       (Simulator, ("_update_times_on_markets", "_update_agents_for_execution", "_add_event",
                                    "_trigger_event_before_order", "_trigger_event_after_execution")),
                       (SequentialRunner, ("_setup", "_run", "class_register")),
                       (Logger, ("write", "bulk_write", "write_and_direct_process", "process", "_process")),
                       (Agent, ("submit_orders", "submitted_order", "executed_order", "canceled_order", "setup"))):
        for n in names:
            if not hasattr(cls, n):
                missing.append(f"{cls.__name__}.{n}")
    if missing:
        raise RuntimeError("pams entry points used by the harness are missing: " + ", ".join(missing))


check_entry_points()


def make_classes(ctx: Ctx) -> Dict[str, type]:
    mon = ctx.mon

    # ------------------------------------------------------------------ logger
    class RecLogger(Logger):
        def __init__(self):
            super().__init__()
            self.n_write = 0

        def _see(self, log, channel):
            code = log_code(log)
            first = id(log) not in mon.seen_logs
            if first:
                mon.seen_logs[id(log)] = channel
                mon.keepalive.append(log)
            mon.on_written(log, code, channel, first)
            if first:
                if code == "O":
                    mon.on_order_log(log)
                elif code == "C":
                    mon.on_cancel_log(log)
                elif code == "E":
                    mon.on_execution_log(log, via_bulk=(channel == "bulk"))
                elif code == "X":
                    mon.on_expiration_log(log)

        def process(self, logs):
            # a logger may override process() and keep the batch it is handed for later: the list must stay as delivered
            self._check_kept()
            self._kept = (logs, len(logs), [id(x) for x in logs])
            super().process(logs)

        def _check_kept(self):
            k = getattr(self, "_kept", None)
            if k is not None and (len(k[0]) != k[1] or [id(x) for x in k[0]] != k[2]):
                self._kept = None
                mon.viol("C10", "delivered_batch_changed_afterwards", {"delivered": k[1], "now": len(k[0])})

        def write(self, log):
            self._check_kept()
            self._see(log, "write")
            super().write(log)

        def bulk_write(self, logs):
            for lg in logs:
                self._see(lg, "bulk")
            super().bulk_write(logs)

        def write_and_direct_process(self, log):
            code = log_code(log)
            if code in ("StB", "StE"):
                mon.on_step_record(log, code)
            else:
                # any other record may be delivered synchronously as well ("no later than ..."): it then
                # overtakes whatever is still pending, which the order oracle sees
                self._see(log, "direct")
                mon.stat("non_step_record_delivered_directly")
            super().write_and_direct_process(log)

        def bulk_write_and_direct_process(self, logs):
            for lg in logs:
                code = log_code(lg)
                if code in ("StB", "StE"):
                    mon.on_step_record(lg, code)
                else:
                    self._see(lg, "direct")
                    mon.stat("non_step_record_delivered_directly")
            super().bulk_write_and_direct_process(logs)

        def process_order_log(self, log):
            mon.on_processed(log, "O")
            super().process_order_log(log)

        def process_cancel_log(self, log):
            mon.on_processed(log, "C")
            super().process_cancel_log(log)

        def process_expiration_log(self, log):
            mon.on_processed(log, "X")
            super().process_expiration_log(log)

        def process_execution_log(self, log):
            mon.on_processed(log, "E")
            super().process_execution_log(log)

        def process_simulation_begin_log(self, log):
            mon.on_processed(log, "SimB")
            super().process_simulation_begin_log(log)

        def process_simulation_end_log(self, log):
            mon.on_processed(log, "SimE")
            super().process_simulation_end_log(log)

        def process_session_begin_log(self, log):
            mon.on_processed(log, "SesB")
            super().process_session_begin_log(log)

        def process_session_end_log(self, log):
            mon.on_processed(log, "SesE")
            super().process_session_end_log(log)

        def process_market_step_begin_log(self, log):
            mon.on_processed(log, "StB")
            super().process_market_step_begin_log(log)

        def process_market_step_end_log(self, log):
            mon.on_processed(log, "StE")
            super().process_market_step_end_log(log)

    # ------------------------------------------------------------------ markets
    class TapMixin:
        _vsim_tap = True

        def __init__(self, *a, **k):
            super().__init__(*a, **k)
            sc = ctx.knobs.get("storage_chunk")
            if sc and hasattr(self, "chunk_size"):
                self.chunk_size = int(sc)
                mon.ext["storage_chunk_applied"] = int(sc)

        def setup(self, settings, *a, **k):
            mon.ext.setdefault("built_settings", {})[self.name] = dict(settings)
            super().setup(settings, *a, **k)

        def _add_order(self, order):
            mon.pre_add(self, order)
            try:
                log = super()._add_order(order)
            except Exception as e:  # rejected: no trace may remain
                mon.add_rejected(self, order, e)
                raise
            mon.post_add(self, order, log)
            return log

        def _cancel_order(self, cancel):
            mon.pre_cancel(self, cancel)
            try:
                log = super()._cancel_order(cancel)
            except Exception as e:
                mon.cancel_rejected(self, cancel, e)
                raise
            mon.post_cancel(self, cancel, log)
            return log

        def _execution(self):
            mon.pre_round(self)
            try:
                logs = super()._execution()
            except Exception as e:
                mon.round_raised(self, e)
                raise
            mon.post_round(self, logs)
            return logs

        def _update_time(self, next_fundamental_price):
            mon.pre_tick(self)
            super()._update_time(next_fundamental_price)
            mon.post_tick(self)

    class TapMarket(TapMixin, Market):
        pass

    class TapIndexMarket(TapMixin, IndexMarket):
        pass

    class TapFundamentals(Fundamentals):
        def __init__(self, prng):
            super().__init__(prng)
            gc = ctx.knobs.get("generation_chunk")
            if gc and hasattr(self, "_generate_chunk_size"):
                self._generate_chunk_size = int(gc)
                mon.ext["generation_chunk_applied"] = int(gc)

    class TapSimulator(Simulator):
        def __init__(self, prng, logger=None, fundamental_class=None):
            super().__init__(prng=prng, logger=logger, fundamental_class=TapFundamentals)

    # ------------------------------------------------------------------ scripted agents
    class ScriptedMixin:
        def setup(self, settings, accessible_markets_ids, *a, **k):
            mon.ext.setdefault("built_settings", {})[self.name] = dict(settings)
            super().setup(settings, accessible_markets_ids, *a, **k)
            self.turns = list(ctx.scripts.get(self.name, []))
            self.turn_i = 0
            self.mine: List[Order] = []
            self.acc = list(accessible_markets_ids)
            self.is_hft = isinstance(self, HighFrequencyAgent)

        def submit_orders(self, markets):
            mon.on_consult(self)
            turn = self.turns[self.turn_i] if self.turn_i < len(self.turns) else []
            self.turn_i += 1
            out = []
            for op in turn:
                r = self._build(op, markets)
                if r is not None:
                    if isinstance(r, list):
                        out.extend(r)
                    else:
                        out.append(r)
            mon.on_returned(self, out)
            return out

        def _market(self, op):
            if not self.acc:
                return None
            mid = self.acc[int(op.get("m", 0)) % len(self.acc)]
            return self.simulator.id2market[mid]

        def _price(self, op, market):
            px = op.get("px") or {}
            mode = px.get("mode", "abs")
            if mode == "abs":
                return float(px["v"])
            if mode == "rel":  # relative to the current market price
                return market.get_market_price() * float(px["f"])
            if mode == "relp0":
                return market.get_market_price(0) * float(px["f"])
            if mode == "bid":  # relative to the best bid (or market price) in ticks
                b = market.get_best_buy_price()
                base = b if b is not None else market.get_market_price()
                return base + float(px.get("d", 0)) * market.tick_size
            if mode == "ask":
                s = market.get_best_sell_price()
                base = s if s is not None else market.get_market_price()
                return base + float(px.get("d", 0)) * market.tick_size
            raise ValueError(mode)

        def _pick(self, op, market):
            want = op.get("ref", "live")
            cands = []
            for o in self.mine:
                if o.market_id != market.market_id:
                    continue
                mo = mon.obj2mo.get(id(o))
                if mo is None:
                    continue
                if want == "any" or mo.status == want:
                    cands.append(o)
            if not cands:
                return None
            return cands[int(op.get("nth", 0)) % len(cands)]

        def _build(self, op, markets):
            k = op["k"]
            if k == "open":
                # the agent opens an account on a market it had no access to (public Agent.set_market_accessible)
                for m_ in self.simulator.markets:
                    if not self.is_market_accessible(m_.market_id):
                        self.set_market_accessible(market_id=m_.market_id)
                        self.acc.append(m_.market_id)
                        if self.agent_id in mon.ledger.shares:
                            mon.ledger.shares[self.agent_id].setdefault(m_.market_id, 0)
                        mon.probe("market_opened_mid_run")
                        break
                return None
            market = self._market(op)
            if market is None:
                return None
            if k in ("limit", "market"):
                is_buy = op.get("side", "b") == "b"
                ttl = op.get("ttl")
                typ = op.get("typ")
                vol_ = int(op.get("vol", 1))
                if typ:
                    is_buy, ttl = typed_fields(typ, is_buy, ttl)
                    if typ == "np":
                        import numpy as _np2
                        vol_ = _np2.int64(vol_)  # sizes computed with NumPy
                if k == "limit":
                    price = self._price(op, market)
                    if price != price:  # NaN only; zero and negative prices are accepted by pams (with a warning)
                        price = market.tick_size
                    if typ == "np":
                        import numpy as _np
                        price = _np.float64(price)
                    elif typ == "ip" and abs(price) < 1e15:
                        price = int(round(price))  # a price written as a whole number (a Python int)
                    o = Order(agent_id=self.agent_id, market_id=market.market_id, is_buy=is_buy,
                              kind=LIMIT_ORDER, volume=vol_, price=price, ttl=ttl)
                else:
                    o = Order(agent_id=self.agent_id, market_id=market.market_id, is_buy=is_buy,
                              kind=MARKET_ORDER, volume=vol_, ttl=ttl)
                o = cloned(o, typ)
                self.mine.append(o)
                mon.on_built(self, o)
                return o
            if k == "cancel":
                tgt = self._pick(op, market)
                if tgt is None:
                    return None
                if tgt.is_canceled and not op.get("even_if_cancelled", True):
                    return None
                c = Cancel(order=tgt)
                self.my_cancels = getattr(self, "my_cancels", [])
                self.my_cancels.append(c)
                mon.on_built(self, c)
                return c
            if k == "recancel":
                # the same Cancel object handed in again in a later consultation (pams accepts and logs it)
                cs = [c for c in getattr(self, "my_cancels", []) if c.order.market_id == market.market_id and c.placed_at is not None]
                if not cs:
                    return None
                mon.probe("cancel_object_resubmitted")
                return cs[int(op.get("nth", 0)) % len(cs)]
            if k == "noise":  # draw from the interpreter-global generators (C07)
                import numpy as _np
                random.random()
                _np.random.random()
                ctx.global_draws += 1
                return None
            # ---------------- hostile programs (C04): each must be rejected
            if k == "spoof":
                others = [a.agent_id for a in self.simulator.agents if a.agent_id != self.agent_id]
                if not others:
                    return None
                o = Order(agent_id=others[int(op.get("nth", 0)) % len(others)], market_id=market.market_id,
                          is_buy=op.get("side", "b") == "b", kind=LIMIT_ORDER, volume=int(op.get("vol", 1)),
                          price=float(self._price(op, market)))
                ctx.hostile_fired.append("spoof")
                mon.on_hostile(self, "spoof", o)
                return o
            if k == "cancel_foreign":
                # a cancel of somebody else's order (the runner's spoofing check covers cancels too)
                cands = [mo for mo in mon.mm[market.market_id].orders.values()
                         if mo.agent != self.agent_id and mo.obj is not None and mo.status == "live"]
                if not cands:
                    return None
                cands.sort(key=lambda mo: mo.oid)
                c = Cancel(order=cands[int(op.get("nth", 0)) % len(cands)].obj)
                ctx.hostile_fired.append("cancel_foreign")
                mon.on_hostile(self, "cancel_foreign", c)
                return c
            if k == "resubmit":
                op2 = dict(op)
                op2["ref"] = op.get("ref", "any")
                tgt = self._pick(op2, market)
                if tgt is None:
                    return None
                ctx.hostile_fired.append("resubmit")
                mon.on_hostile(self, "resubmit", tgt)
                return tgt
            if k == "dup":
                o = Order(agent_id=self.agent_id, market_id=market.market_id, is_buy=op.get("side", "b") == "b",
                          kind=LIMIT_ORDER, volume=int(op.get("vol", 1)), price=float(self._price(op, market)))
                self.mine.append(o)
                mon.on_built(self, o)
                ctx.hostile_fired.append("dup")
                mon.on_hostile(self, "dup", o)
                return [o, o]
            if k == "ghost_market":
                o = Order(agent_id=self.agent_id, market_id=10_000 + int(op.get("nth", 0)), is_buy=True,
                          kind=LIMIT_ORDER, volume=1, price=float(self._price(op, market)))
                ctx.hostile_fired.append("ghost_market")
                mon.on_hostile(self, "ghost_market", o)
                return o
            if k == "ghost_cancel":
                o = Order(agent_id=self.agent_id, market_id=market.market_id, is_buy=True,
                          kind=LIMIT_ORDER, volume=1, price=float(self._price(op, market)))
                c = Cancel(order=o)
                ctx.hostile_fired.append("ghost_cancel")
                mon.on_hostile(self, "ghost_cancel", c)
                return c
            if k == "bad_ctor":
                which = op.get("which", "vol0")
                kw = dict(agent_id=self.agent_id, market_id=market.market_id, is_buy=True, kind=LIMIT_ORDER,
                          volume=1, price=float(market.get_market_price()))
                if which == "vol0":
                    kw["volume"] = 0
                elif which == "volneg":
                    kw["volume"] = -3
                elif which == "ttl0":
                    kw["ttl"] = 0
                elif which == "ttlneg":
                    kw["ttl"] = -2
                elif which == "mkt_with_price":
                    kw["kind"] = MARKET_ORDER
                elif which == "limit_no_price":
                    kw["price"] = None
                try:
                    Order(**kw)
                except ValueError:
                    mon.stat("ctor_rejected")
                    mon.probe("hostile_bad_ctor_rejected")
                    return None
                mon.viol("C04", "constructor_accepted_invalid_order", {"which": which})
                return None
            raise ValueError(f"unknown op {k}")

        def submitted_order(self, log):
            mon.on_callback(self, "submitted", log)
            super().submitted_order(log)

        def executed_order(self, log):
            mon.on_callback(self, "executed", log)
            super().executed_order(log)

        def canceled_order(self, log):
            mon.on_callback(self, "canceled", log)
            super().canceled_order(log)

    class ScriptedAgent(ScriptedMixin, Agent):
        pass

    class ScriptedHFT(ScriptedMixin, HighFrequencyAgent):
        pass

    # ------------------------------------------------------------------ tap and probe events
    class Tap(EventABC):
        """observer registered between the configured events; phase 'n' sits in the None bucket
        (dispatched first), phase 't' in the per-time buckets (dispatched second)."""

        def setup(self, settings, *a, **k):
            super().setup(settings, *a, **k)
            self.idx = int(settings["tapIndex"])
            self.phase = settings.get("phase", "n")

        def hook_registration(self):
            times = None if self.phase == "n" else list(range(0, ctx.total_steps + 2))
            return [EventHook(event=self, hook_type=kind, is_before=before, time=times)
                    for kind, before in HOOK_KINDS]

        def hooked_before_order(self, simulator, order):
            mon.tap(self.idx, self.phase, "order_before", order)

        def hooked_after_order(self, simulator, order_log):
            mon.tap(self.idx, self.phase, "order_after", order_log)

        def hooked_before_cancel(self, simulator, cancel):
            mon.tap(self.idx, self.phase, "cancel_before", cancel)

        def hooked_after_cancel(self, simulator, cancel_log):
            mon.tap(self.idx, self.phase, "cancel_after", cancel_log)

        def hooked_after_execution(self, simulator, execution_log):
            mon.tap(self.idx, self.phase, "execution_after", execution_log)

        def hooked_before_session(self, simulator, session):
            mon.tap(self.idx, self.phase, "session_before", session)

        def hooked_after_session(self, simulator, session):
            mon.tap(self.idx, self.phase, "session_after", session)

        def hooked_before_step_for_market(self, simulator, market):
            mon.tap(self.idx, self.phase, "market_before", market)

        def hooked_after_step_for_market(self, simulator, market):
            mon.tap(self.idx, self.phase, "market_after", market)

    class ProbeEvent(EventABC):
        """generated user event: arbitrary hook sets, time lists and market filters."""

        def setup(self, settings, *a, **k):
            mon.ext.setdefault("built_settings", {})["event:" + self.name] = dict(settings)
            super().setup(settings, *a, **k)
            self.spec = ctx.probes.get(self.name, {})

        def hook_registration(self):
            hooks = []
            classes = {"Market": Market, "IndexMarket": IndexMarket, "TapMarket": TapMarket,
                       "TapIndexMarket": TapIndexMarket}
            for h in self.spec.get("hooks", []):
                kw = {}
                if h.get("cls"):
                    kw["specific_class"] = classes[h["cls"]]
                if h.get("inst"):
                    kw["specific_instance"] = self.simulator.name2market[h["inst"]]
                times = h.get("times")
                hooks.append(EventHook(event=self, hook_type=h["kind"], is_before=bool(h["before"]),
                                       time=None if times is None else list(times), **kw))
            if self.spec.get("dup_hook") and hooks:
                hooks.append(hooks[int(self.spec["dup_hook"]) % len(hooks)])
            return hooks

        def hooked_before_order(self, simulator, order):
            mon.probe_call(self.name, "order", True, order)
            alt = self.spec.get("alter")
            if alt and order.price is not None and ("f" in alt or "d" in alt):
                if "f" in alt:
                    order.price = order.price * float(alt["f"])
                if "d" in alt:
                    order.price = order.price + float(alt["d"])
                mon.probe_altered(self.name, order)
            pc = self.spec.get("premature")
            if pc and id(order) not in mon.obj2mo and order.order_id is None:
                # a kill switch that fires too early: it tries to cancel the order that is only about to be
                # submitted, is refused, swallows the refusal, and the submission goes ahead
                self._n_pc = getattr(self, "_n_pc", 0) + 1
                if self._n_pc % int(pc.get("every", 1)) == 0:
                    market_ = simulator.id2market[order.market_id]
                    snap_ = (order.placed_at, order.order_id, bool(order.is_canceled), order.price, order.volume)
                    try:
                        market_._cancel_order(cancel=Cancel(order=order))
                    except ValueError:
                        mon.probe("premature_cancel_refused")
                        if (order.placed_at, order.order_id, bool(order.is_canceled), order.price, order.volume) != snap_:
                            for p_ in sorted(mon.on):
                                mon.viol(p_, "refused_operation_changed_its_argument",
                                         {"what": "cancel of an order that is not submitted yet", "before": repr(snap_),
                                          "after": repr((order.placed_at, order.order_id, bool(order.is_canceled), order.price, order.volume))})
                    else:
                        mon.viol("C04", "hostile_op_accepted", {"kind": "premature_cancel"})
            rw = self.spec.get("rewrite")
            if rw:
                # a user rule that rewrites pending orders the way the shipped OrderMistakeShock does: every
                # public field of the order, including its kind, its side and the account it is booked to
                self._n_rw = getattr(self, "_n_rw", 0) + 1
                if self._n_rw % int(rw.get("every", 1)) == 0 and id(order) not in mon.obj2mo:  # pending orders only
                    market = simulator.id2market[order.market_id]
                    if rw.get("kind") == "L" and order.kind == MARKET_ORDER:
                        order.kind = LIMIT_ORDER
                        order.price = market.get_market_price() * (1.0 + float(rw.get("off", 0.0)))
                    elif rw.get("kind") == "M" and order.kind == LIMIT_ORDER:
                        order.kind = MARKET_ORDER
                        order.price = None
                    if rw.get("flip"):
                        order.is_buy = not order.is_buy
                    if rw.get("vol"):
                        order.volume = max(1, int(order.volume) + int(rw["vol"]))
                    if rw.get("ttl") is not None:
                        order.ttl = int(rw["ttl"])
                    if rw.get("owner") is not None:
                        ags = [a for a in simulator.agents if a.is_market_accessible(order.market_id)]
                        if ags:
                            order.agent_id = ags[int(rw["owner"]) % len(ags)].agent_id
                    mon.probe("order_rewritten_by_hook")

        def _maybe_arm(self, simulator, trigger):
            # a rule that arms itself: on the n-th occurrence it sees, it registers one more hook of its own
            # while the run is in progress (EventHook + Simulator._add_event, what hook_registration feeds)
            arm = self.spec.get("arm")
            if not arm or arm.get("trigger") != trigger or getattr(self, "_armed", False):
                return
            self._n_arm = getattr(self, "_n_arm", 0) + 1
            if self._n_arm < int(arm.get("nth", 1)):
                return
            self._armed = True
            h = arm["hook"]
            hook = EventHook(event=self, hook_type=h["kind"], is_before=bool(h["before"]),
                             time=None if h.get("times") is None else list(h["times"]))
            simulator._add_event(hook)
            mon.probe_armed(self.name, h)

        def hooked_after_order(self, simulator, order_log):
            mon.probe_call(self.name, "order", False, order_log)
            self._maybe_arm(simulator, "order_after")

        def hooked_before_cancel(self, simulator, cancel):
            mon.probe_call(self.name, "cancel", True, cancel)

        def hooked_after_cancel(self, simulator, cancel_log):
            mon.probe_call(self.name, "cancel", False, cancel_log)

        def hooked_after_execution(self, simulator, execution_log):
            mon.probe_call(self.name, "execution", False, execution_log)
            self._maybe_arm(simulator, "execution")
            br = self.spec.get("breaker")
            if br:
                # a user-written circuit breaker: after its k-th fill it switches matching off for the running
                # session from inside the hook (what the shipped halt rule does), optionally back on later
                self._n_fills = getattr(self, "_n_fills", 0) + 1
                if self._n_fills == int(br.get("after", 1)) and simulator.current_session is not None:
                    simulator.current_session.with_order_execution = False
                    self._broke = simulator.current_session
                    mon.probe("hook_switched_matching_off")

        def hooked_before_session(self, simulator, session):
            mon.probe_call(self.name, "session", True, session)
            sw = self.spec.get("sweep")
            if sw:
                # an opening rule that acts on the books itself before the session begins: cancels resting orders
                # and posts a quote through the markets' own entry points (records arise between two sessions)
                for market in simulator.markets:
                    if isinstance(market, IndexMarket):
                        continue
                    live = [o for o in list(market.buy_order_book.priority_queue) + list(market.sell_order_book.priority_queue)]
                    live.sort(key=lambda o: o.order_id)
                    for o in live[:int(sw.get("cancel", 0))]:
                        market._cancel_order(cancel=Cancel(order=o))
                    if sw.get("quote") and simulator.agents:
                        ag = simulator.agents[0]
                        if ag.is_market_accessible(market.market_id):
                            market._add_order(order=Order(agent_id=ag.agent_id, market_id=market.market_id, is_buy=bool(sw.get("buy", True)),
                                                          kind=LIMIT_ORDER, volume=1,
                                                          price=market.get_market_price() * (0.9 if sw.get("buy", True) else 1.1)))
                mon.probe("books_swept_before_session")

        def hooked_after_session(self, simulator, session):
            mon.probe_call(self.name, "session", False, session)

        def hooked_before_step_for_market(self, simulator, market):
            mon.probe_call(self.name, "market", True, market)
            br = self.spec.get("breaker")
            if br and br.get("restore") and getattr(self, "_broke", None) is simulator.current_session:
                simulator.current_session.with_order_execution = True
                self._broke = None

        def hooked_after_step_for_market(self, simulator, market):
            mon.probe_call(self.name, "market", False, market)
            if self.spec.get("audit"):
                # a reporting rule in the ask-forgiveness style: looks up every agent's position on this market and
                # treats KeyError as "no account there"
                for ag in simulator.agents:
                    try:
                        ag.asset_volumes[market.market_id]
                    except KeyError:
                        pass
                mon.probe("positions_read_with_keyerror_fallback")
            iss = self.spec.get("issue")
            if iss and market.name == iss.get("market") and market.get_time() == int(iss.get("at", 0)) \
                    and market.outstanding_shares is not None:
                # a user-written share issuance: the public attribute changes at the end of a step
                market.outstanding_shares = int(market.outstanding_shares) + int(iss.get("add", 1))
                mon.probe("shares_issued_mid_run")

    LateMarket = type("LateMarket", (TapMarket,), {})  # registered only after a first, refused set-up (C18)
    out = {c.__name__: c for c in (RecLogger, TapMarket, TapIndexMarket, TapFundamentals, TapSimulator,
                                   ScriptedAgent, ScriptedHFT, Tap, ProbeEvent, LateMarket)}
    from . import probe_agents
    out.update(probe_agents.make(ctx))
    return out
