"""Batch engine: seeded search over scenarios on a fork pool, watchdog, aggregation in seed order,
minimisation, replay files, known findings, evidence.  See DESIGN.md 2.1, 2.6, 7.
"""
import json
import os
import signal
import sys
import time
import faulthandler
import zlib
from concurrent.futures import ProcessPoolExecutor
import multiprocessing as mp
from typing import Any, Callable, Dict, List, Optional, Tuple

from . import env, seeds

VERIF = env.VERIF
OUT = os.environ.get("VERIF_OUT", VERIF)


class WatchdogTimeout(BaseException):
    def __init__(self, where):
        super().__init__("watchdog")
        self.where = where


def _alarm(signum, frame):
    where = []
    f = frame
    while f is not None:
        fn = f.f_code.co_filename
        if fn.startswith(env.REPO):
            where.append((fn.replace(env.REPO + "/", ""), f.f_code.co_name))
        f = f.f_back
    raise WatchdogTimeout(where)


class Batch:
    def __init__(self, name: str, gen: Callable, quick: int, thorough: int, driver: str = "A",
                 run: Optional[Callable] = None, budget_s: float = 20.0, profile: str = ""):
        self.name = name
        self.gen = gen
        self.quick = quick
        self.thorough = thorough
        self.driver = driver
        self.run = run
        self.budget_s = budget_s
        self.profile = profile


class Check:
    def __init__(self, prop: str, on, batches: List[Batch], plugins: Callable[[], list] = lambda: [],
                 nontrivial: Callable[[Dict[str, Any]], bool] = lambda s: True, rule: str = "",
                 watchdog_prop: Optional[Callable] = None, assumptions: Optional[List[str]] = None,
                 exc_is_violation: Optional[Callable] = None, post: Optional[Callable] = None,
                 summarize: Optional[Callable] = None, need_probes: Optional[List[str]] = None):
        self.prop = prop
        self.on = set(on)
        self.batches = batches
        self.plugins = plugins
        self.nontrivial = nontrivial
        self.rule = rule
        self.watchdog_prop = watchdog_prop
        self.assumptions = assumptions or []
        self.exc_is_violation = exc_is_violation
        self.post = post
        self.summarize = summarize
        self.need_probes = need_probes or []


# map innermost pams frame -> property whose anchored mechanism it is (DESIGN.md 3.6)
EXC_ATTRIBUTION = [
    ("pams/market.py", ("_execution", "_execute_orders", "remain_executable_orders"), "C03"),
    ("pams/events/price_limit_rule.py", None, "C15"),
    ("pams/events/order_mistake_shock.py", None, "C14"),
    ("pams/events/fundamental_price_shock.py", None, "C14"),
    ("pams/events/trading_halt_rule.py", None, "C16"),
    ("pams/order_book.py", None, "C04"),
    ("pams/index_market.py", None, "C17"),
    ("pams/fundamentals.py", None, "C12"),
    ("pams/market.py", ("_extract_data_by_time", "_extract_sequential_data_by_time", "get_vwap", "_fill_until",
                        "_update_time", "_set_time"), "C06"),
    ("pams/market.py", ("_add_order", "_cancel_order", "_update_market_price"), "C04"),
    ("pams/agents/", None, "C20"),
    ("pams/utils/", None, "C18"),
    ("pams/logs/", None, "C10"),
    ("pams/simulator.py", ("_update_agents_for_execution",), "C05"),
    ("pams/simulator.py", None, "C13"),
]


def attribute_exception(err: Dict[str, Any]) -> List[str]:
    """properties whose anchored mechanism the escaping exception came out of: the innermost pams
    frame decides, plus any rule/index frame further up the stack (e.g. an index market asking a
    component for a future value fails inside Market but because of the stepping order)."""
    pf = err.get("pams_frame")
    if not pf:
        return []
    out: List[str] = []
    for path, funcs, prop in EXC_ATTRIBUTION:
        if pf[0].startswith(path) and (funcs is None or pf[1] in funcs):
            out.append(prop)
            break
    for fr in err.get("pams_stack", [])[:-1]:
        for path, prop in (("pams/index_market.py", "C17"), ("pams/events/price_limit_rule.py", "C15"),
                           ("pams/events/order_mistake_shock.py", "C14"), ("pams/events/fundamental_price_shock.py", "C14"),
                           ("pams/events/trading_halt_rule.py", "C16"), ("pams/fundamentals.py", "C12"),
                           ("pams/agents/", "C20")):
            if fr[0].startswith(path) and prop not in out:
                out.append(prop)
        # an exception that escapes from the settlement of fills, whatever helper raised it
        if fr[0].startswith("pams/simulator.py") and fr[1] == "_update_agents_for_execution" and "C05" not in out:
            out.append("C05")
    return out


def run_guarded(check: Check, scn: Dict[str, Any], budget_s: float, runfn=None) -> Dict[str, Any]:
    """run one scenario under the watchdog; returns the raw result (with _mon)."""
    from .drivers import run_scenario, new_result
    fn = runfn or run_scenario
    old = signal.signal(signal.SIGALRM, _alarm)
    signal.setitimer(signal.ITIMER_REAL, budget_s)
    try:
        res = fn(scn, check.on, check.plugins())
    except WatchdogTimeout as w:
        res = new_result()
        res["watchdog"] = w.where
    finally:
        signal.setitimer(signal.ITIMER_REAL, 0)
        signal.signal(signal.SIGALRM, old)
    return res


def summarize(check: Check, batch: Batch, idx: int, scn, res) -> Dict[str, Any]:
    """picklable per-run summary (seed-ordered aggregation happens in the parent)."""
    mon = res.pop("_mon", None)
    viols = list(res.get("violations", []))
    err = res.get("error")
    anomalies = []
    if res.get("watchdog") is not None:
        wprop = check.watchdog_prop(res["watchdog"]) if check.watchdog_prop else None
        if wprop is None:
            return {"idx": idx, "batch": batch.name, "harness_error": "watchdog " + repr(res["watchdog"][:3])}
        viols.append({"property": wprop, "kind": "watchdog_timeout", "event": -1, "time": -1,
                      "detail": {"where": res["watchdog"][:4]}})
    if err is not None and not err.get("expected"):
        props = attribute_exception(err)
        res["_mon"] = mon
        custom = check.exc_is_violation(err, scn, res) if check.exc_is_violation else None
        res.pop("_mon", None)
        if custom is not None:
            props = [custom] if custom else []
        for prop in props:
            viols.append({"property": prop, "kind": "exception_" + err["type"] + "_in_" + (err["pams_frame"] or ["?", "?"])[1],
                          "event": res.get("n_events", -1), "time": -1,
                          "detail": {"type": err["type"], "msg": err["msg"], "frame": err["pams_frame"], "phase": res.get("phase"),
                                     "stack": err.get("pams_stack", [])[-4:]}})
        if not props:
            anomalies.append({"type": err["type"], "msg": err["msg"][:120], "frame": err["pams_frame"], "phase": res.get("phase")})
    out = {
        "idx": idx, "batch": batch.name, "violations": viols, "stats": res.get("stats", {}),
        "probes": res.get("probes", {}), "anomalies": anomalies, "completed": res.get("completed", False),
        "n_events": res.get("n_events", 0), "hostile": res.get("hostile_fired", []),
    }
    if mon is not None:
        out["digest"] = seeds.digest(mon.trace)[:16]
        out["sigs"] = [zlib.crc32(repr(s).encode()) for s in mon.book_sigs]
        out["inter"] = [zlib.crc32(repr(s).encode()) for s in mon.consult_seqs]
        out["steps"] = max(0, mon.now + 1)
        out["degraded"] = [k for k in ("storage_chunk", "generation_chunk")
                           if (scn.get("knobs") or {}).get(k) and (k + "_applied") not in mon.ext]
    if check.summarize is not None:
        check.summarize(out, scn, res, mon)
    out["nontrivial"] = bool(check.nontrivial(out))
    return out


_CHECK: Optional[Check] = None
_SEED = 0


def scenario_for(check: Check, batch: Batch, seed: int, idx: int) -> Dict[str, Any]:
    r = seeds.rng(seed, check.prop, batch.name, idx)
    scn = batch.gen(r) if not batch.profile else batch.gen(r, batch.profile)
    scn.setdefault("meta", {})
    scn["meta"].update({"property": check.prop, "batch": batch.name, "index": idx, "verif_seed": seed})
    return scn


def _work(args) -> List[Dict[str, Any]]:
    bi, lo, hi = args
    check = _CHECK
    batch = check.batches[bi]
    faulthandler.enable()
    out = []
    for idx in range(lo, hi):
        scn = scenario_for(check, batch, _SEED, idx)
        try:
            res = run_guarded(check, scn, batch.budget_s, batch.run)
            out.append(summarize(check, batch, idx, scn, res))
        except Exception as e:  # harness error: never silently dropped
            import traceback
            out.append({"idx": idx, "batch": batch.name,
                        "harness_error": f"{type(e).__name__}: {e}\n{traceback.format_exc()[-1800:]}"})
    return out


def run_batches(check: Check, tier: str, seed: int, jobs: int, wall_cap: float, scale: float = 1.0):
    global _CHECK, _SEED
    _CHECK = check
    _SEED = seed
    t0 = time.time()
    tasks = []
    keyed = []
    for bi, b in enumerate(check.batches):
        n = max(1, int((b.quick if tier == "quick" else b.thorough) * scale))
        per = max(1, min(400, n // (jobs * 4) if n >= jobs * 4 else 1))
        for lo in range(0, n, per):
            # interleave the batches by completed fraction, so that a wall cap shortens all of them alike
            keyed.append((lo / n, bi, lo, min(n, lo + per)))
    keyed.sort()
    tasks = [(bi, lo, hi) for _, bi, lo, hi in keyed]
    results: List[Dict[str, Any]] = []
    truncated = False
    ctx = mp.get_context("fork")
    with ProcessPoolExecutor(max_workers=jobs, mp_context=ctx) as ex:
        # waves so that the wall cap can stop submission
        wave = jobs * 3
        i = 0
        while i < len(tasks):
            if time.time() - t0 > wall_cap:
                truncated = True
                break
            futs = [ex.submit(_work, t) for t in tasks[i:i + wave]]
            for f in futs:
                results.extend(f.result(timeout=3600))
            i += wave
    results.sort(key=lambda s: (s["batch"], s["idx"]))
    return results, truncated, time.time() - t0


# ---------------------------------------------------------------------- known findings
def load_findings() -> List[Dict[str, Any]]:
    p = os.path.join(VERIF, "known_findings.json")
    if not os.path.exists(p):
        return []
    return json.load(open(p)).get("findings", [])


def match_finding(v: Dict[str, Any], findings: List[Dict[str, Any]]) -> Optional[Dict[str, Any]]:
    for f in findings:
        if f.get("status") != "known":
            continue
        sig = f.get("signature", {})
        if f.get("property") != v["property"]:
            continue
        if sig.get("kind") and sig["kind"] != v["kind"]:
            continue
        disc = sig.get("detail_contains")
        if disc:
            txt = json.dumps(v.get("detail"), sort_keys=True, default=str)
            if not all(d in txt for d in disc):
                continue
        return f
    return None


# ---------------------------------------------------------------------- top-level check run
def own_violations(check: Check, summary: Dict[str, Any]) -> List[Dict[str, Any]]:
    return [v for v in summary.get("violations", []) if v["property"] == check.prop]


def write_replay(check: Check, scn: Dict[str, Any], v: Dict[str, Any], seed: int, n: int) -> str:
    os.makedirs(os.path.join(OUT, "replays"), exist_ok=True)
    scn = dict(scn)
    scn["found"] = v
    path = os.path.join(OUT, "replays", f"{check.prop}-{seed}-{n}.json")
    with open(path, "w") as f:
        json.dump(scn, f, indent=1, sort_keys=True, default=str)
    return path


def execute_check(check: Check, tier: str, seed: int, jobs: int) -> int:
    from . import shrink
    t0 = time.time()
    wall_cap = float(os.environ.get("VERIF_WALL_CAP", 240 if tier == "quick" else 3600))
    scale = float(os.environ.get("VERIF_SCALE", 1.0))
    results, truncated, wall = run_batches(check, tier, seed, jobs, wall_cap, scale)
    harness_errors = [r for r in results if "harness_error" in r]
    ok = [r for r in results if "harness_error" not in r]
    findings = load_findings()
    viol_runs = []
    for r in ok:
        vs = own_violations(check, r)
        if vs:
            viol_runs.append((r, vs))
    reported = 0
    known_lines = {}
    new_classes = {}
    for r, vs in viol_runs:
        for v in vs:
            f = match_finding(v, findings)
            if f is not None:
                known_lines.setdefault(f["id"], (f, 0))
                known_lines[f["id"]] = (f, known_lines[f["id"]][1] + 1)
            else:
                new_classes.setdefault(v["kind"], []).append((r, v))
    exit_code = 0
    replay_paths = []
    for kind in sorted(new_classes):
        r, v = new_classes[kind][0]
        batch = [b for b in check.batches if b.name == r["batch"]][0]
        scn = scenario_for(check, batch, seed, r["idx"])
        if reported < 4:
            try:
                scn2, v2 = shrink.minimise(check, batch, scn, v, budget_s=60 if tier == "quick" else 180)
            except Exception as e:  # never lose a violation because the shrinker failed
                print(f"# shrinker failed: {type(e).__name__}: {e}", file=sys.stderr)
                scn2, v2 = scn, v
        else:
            scn2, v2 = scn, v
        path = write_replay(check, scn2, v2, seed, reported)
        replay_paths.append(path)
        print(f"VIOLATION property={check.prop} replay={path}")
        print(f"#   kind={v2['kind']} event={v2.get('event')} runs_with_this_kind={len(new_classes[kind])} "
              f"detail={json.dumps(v2.get('detail'), default=str)[:400]}")
        reported += 1
        exit_code = 1
    # statistics over the whole batch (fixed sample, bounds wide enough that a false alarm is out of the question):
    # the replay file names the runs, and replaying re-executes them and recomputes the statistic
    if check.post is not None:
        for av in check.post(ok):
            v = {"property": check.prop, "kind": av["kind"], "detail": av["detail"], "event": None, "time": None}
            f = match_finding(v, findings)
            if f is not None:
                known_lines.setdefault(f["id"], (f, 0))
                known_lines[f["id"]] = (f, known_lines[f["id"]][1] + 1)
                continue
            scn = {"format": 1, "aggregate": True, "runs": av["runs"], "meta": {"property": check.prop, "verif_seed": seed}}
            path = write_replay(check, scn, v, seed, reported)
            print(f"VIOLATION property={check.prop} replay={path}")
            print(f"#   kind={v['kind']} (statistic over {len(av['runs'])} runs) detail={json.dumps(v['detail'], default=str)[:400]}")
            new_classes.setdefault(v["kind"], []).append((None, v))
            reported += 1
            exit_code = 1
    for fid in sorted(known_lines):
        f, n = known_lines[fid]
        print(f"KNOWN-FINDING: property={check.prop} {f['text']} (id={fid}, seen in {n} runs)")
    if harness_errors:
        for h in harness_errors[:3]:
            print(f"HARNESS-ERROR batch={h['batch']} idx={h['idx']}: {h['harness_error']}", file=sys.stderr)
        if exit_code == 0:
            exit_code = 2
    write_evidence(check, tier, seed, ok, harness_errors, truncated, time.time() - t0, len(new_classes), known_lines, jobs)
    n_other = sum(1 for r in ok for v in r.get("violations", []) if v["property"] != check.prop)
    print(f"# {check.prop} {tier} seed={seed}: runs={len(ok)} violations(new classes)={len(new_classes)} "
          f"known={len(known_lines)} other-property-observations={n_other} harness_errors={len(harness_errors)} "
          f"truncated={truncated} wall={time.time() - t0:.1f}s")
    return exit_code


def write_evidence(check, tier, seed, ok, harness_errors, truncated, wall, n_new, known_lines, jobs):
    probes: Dict[str, int] = {}
    stats: Dict[str, int] = {}
    per_batch: Dict[str, Dict[str, Any]] = {}
    digests = set()
    sigs = set()
    inter = set()
    steps = 0
    anomalies: Dict[str, int] = {}
    degraded: Dict[str, int] = {}
    other: Dict[str, int] = {}
    for r in ok:
        pb = per_batch.setdefault(r["batch"], {"runs": 0, "nontrivial": 0, "completed": 0})
        pb["runs"] += 1
        pb["completed"] += 1 if r.get("completed") else 0
        if r.get("nontrivial"):
            pb["nontrivial"] += 1
            digests.add((r["batch"], r.get("digest")))
        for k, v in r.get("probes", {}).items():
            probes[k] = probes.get(k, 0) + v
        for k, v in r.get("stats", {}).items():
            stats[k] = stats.get(k, 0) + v
        sigs.update(r.get("sigs", []))
        inter.update(r.get("inter", []))
        steps += r.get("steps", 0)
        for a in r.get("anomalies", []):
            key = f"{a['type']}@{a['frame']}"
            anomalies[key] = anomalies.get(key, 0) + 1
        for d in r.get("degraded", []):
            degraded[d] = degraded.get(d, 0) + 1
        for v in r.get("violations", []):
            if v["property"] != check.prop:
                key = v["property"] + ":" + v["kind"]
                other[key] = other.get(key, 0) + 1
    samples = []
    for b in check.batches:
        for r in ok:
            if r["batch"] == b.name and r.get("nontrivial"):
                scn = scenario_for(check, b, seed, r["idx"])
                samples.append({"batch": b.name, "index": r["idx"], "scenario_abridged": abridge(scn),
                                "stats": r.get("stats"), "probes": r.get("probes"), "trace_digest": r.get("digest")})
                break
    if not samples and ok:
        b = check.batches[0]
        samples.append({"batch": b.name, "index": 0, "scenario_abridged": abridge(scenario_for(check, b, seed, 0))})
    fired = {k: v for k, v in probes.items()}

    def tot(*names, prefix=None):
        n = sum(probes.get(x, 0) + stats.get(x, 0) for x in names)
        if prefix:
            n += sum(v for k, v in probes.items() if k.startswith(prefix))
        return n
    fault_kinds = {
        "outage_then_clearing_round (no-exec session / halt / withheld matching)": tot("crossed_book_cleared"),
        "book_events_while_not_running": tot("book_event_while_stopped", "accept_during_halt"),
        "running_toggled_mid_history (driver B)": tot("running_toggled"),
        "forced_round_on_stopped_market (driver B)": tot("forced_round_refused"),
        "trading_halt": tot("halt_triggered"),
        "price_limit_clip": tot("c15_clipped_high", "c15_clipped_low"),
        "order_mistake_shock": tot("mistake_replaced"),
        "fundamental_shock": tot("fund_shock_fired", "shock", "change_shock"),
        "parameter_change (drift/vol/corr)": tot("change_drift", "change_vol", "change_corr", "change_uncorr"),
        "hook_mutation_of_pending_order": tot("hook_altered_order"),
        "ttl_race (fill or cancel in last live step, cancel of dead order)": tot("fill_in_last_live_step", "cancel_in_last_live_step", prefix="cancel_after_"),
        "market_orders": tot("market_order_accepted"),
        "hostile_agent_program": tot(prefix="hostile_") - tot(prefix="hostile_config_") - tot(prefix="hostile_rejected"),
        "hostile_config": tot(prefix="hostile_config_rejected_"),
        "env_noise (global generators / fresh interpreters)": tot("global_generator_perturbations", "fresh_interpreter_runs"),
        "chunk_boundary (storage/generation knob or > 100 steps)": tot("storage_chunk_boundary_crossed", "generation_chunk_boundary_crossed"),
        "caps_reached": tot("normal_cap_reached", "hft_cap_reached"),
        "self_trade": tot("self_trade"),
    }
    zero = [p for p in check.need_probes if probes.get(p, 0) == 0]
    ev = {
        "property_id": check.prop, "tier": tier, "seed": seed, "level": "exploration",
        "coverage": {
            "evaluations": len(ok),
            "distinct_nontrivial": len(digests),
            "rule": check.rule + " Distinct = distinct SHA-256 digest of the full recorded event trace among "
                                 "non-trivial runs (measured).",
            "samples": samples,
            "per_batch": per_batch,
            "runs_per_hour": int(len(ok) / max(wall, 1e-6) * 3600),
            "jobs": jobs,
            "simulated_steps": steps,
            "events": {k: stats.get(k, 0) for k in sorted(stats)},
            "fault_kinds_fired": {k: v for k, v in fault_kinds.items()},
            "fault_and_rare_condition_counters": {k: fired[k] for k in sorted(fired)},
            "rare_conditions_never_hit": zero,
            "distinct_book_states_before_rounds": len(sigs),
            "distinct_consultation_sequences": len(inter),
            "truncated_by_wall_cap": truncated,
            "harness_errors": len(harness_errors),
            "anomalies_not_attributed": anomalies,
            "observations_for_other_properties": other,
            "degraded_knobs": degraded,
            "known_findings_seen": {k: v[1] for k, v in known_lines.items()},
            "components": {
                "real": ["SequentialRunner", "Simulator", "Market", "IndexMarket", "OrderBook", "Order", "Cancel",
                         "Session", "Fundamentals", "Logger(base)", "built-in events", "built-in agents",
                         "json_extends", "JsonRandom", "find_class"],
                "stub": ["scripted agents (user agent programs)", "tap/probe events (user events)",
                         "recording logger subclass", "tap market subclasses (wrappers calling super())"],
            },
        },
        "assumptions": check.assumptions + [
            "pams is imported from VERIF_REPO (default /repo) working tree; asserted at import",
            "sampling, not enumeration: a clean batch is evidence, not proof",
        ],
        "wall_s": round(wall, 2),
        "violations": n_new,
    }
    os.makedirs(os.path.join(OUT, "evidence"), exist_ok=True)
    with open(os.path.join(OUT, "evidence", f"{check.prop}.json"), "w") as f:
        json.dump(ev, f, indent=1, sort_keys=True, default=str)


def abridge(scn: Dict[str, Any]) -> Dict[str, Any]:
    out = {"driver": scn.get("driver"), "runner_seed": scn.get("runner_seed"), "knobs": scn.get("knobs")}
    cfg = scn.get("config", {})
    if isinstance(cfg, dict):
        out["config_keys"] = sorted(cfg.keys())[:30]
        sim = cfg.get("simulation", {})
        if isinstance(sim, dict):
            out["sessions"] = sim.get("sessions")
    if "ops" in scn:
        out["ops_first_25"] = scn["ops"][:25]
        out["n_ops"] = len(scn["ops"])
    if "scripts" in scn:
        sc = scn["scripts"]
        out["scripts_first"] = {k: v[:6] for k, v in list(sc.items())[:2]}
    for k in ("fops", "probes", "f"):
        if k in scn:
            out[k] = scn[k] if k != "fops" else scn[k][:25]
    return out


def replay_aggregate(path: str, scn: Dict[str, Any], check: Check) -> int:
    global _CHECK, _SEED
    seed = int(scn["meta"]["verif_seed"])
    _CHECK, _SEED = check, seed
    names = [b.name for b in check.batches]
    by_batch: Dict[str, List[int]] = {}
    for bn, idx in scn["runs"]:
        by_batch.setdefault(bn, []).append(int(idx))
    tasks = []
    for bn, idxs in by_batch.items():
        idxs.sort()
        # contiguous stretches of indices
        lo = prev = idxs[0]
        for i in idxs[1:] + [None]:
            if i is None or i != prev + 1:
                tasks.append((names.index(bn), lo, prev + 1))
                lo = i
            prev = i if i is not None else prev
    results: List[Dict[str, Any]] = []
    jobs = int(os.environ.get("VERIF_JOBS", os.cpu_count() or 4))
    with ProcessPoolExecutor(max_workers=jobs, mp_context=mp.get_context("fork")) as ex:
        for f in [ex.submit(_work, t) for t in tasks]:
            results.extend(f.result(timeout=3600))
    ok = [r for r in results if "harness_error" not in r]
    want = scn.get("found", {})
    for av in check.post(ok):
        if av["kind"] == want.get("kind"):
            print(f"VIOLATION property={check.prop} replay={path}")
            print(f"#   reproduced kind={av['kind']} (statistic over {len(ok)} runs, identical={av['detail'] == want.get('detail')}) "
                  f"detail={json.dumps(av['detail'], default=str)[:500]}")
            return 1
    print(f"# replay of {path}: the statistic is within its bounds on this tree ({len(ok)} runs)")
    return 0


def replay_file(path: str, checks: Dict[str, Check]) -> int:
    scn = json.load(open(path))
    prop = scn.get("found", {}).get("property") or scn.get("meta", {}).get("property")
    check = checks[prop]
    if scn.get("aggregate"):
        return replay_aggregate(path, scn, check)
    batch = None
    for b in check.batches:
        if b.name == scn.get("meta", {}).get("batch"):
            batch = b
    if batch is None:
        batch = check.batches[0]
    res = run_guarded(check, scn, batch.budget_s * 3, batch.run)
    s = summarize(check, batch, -1, scn, res)
    if "harness_error" in s:
        print("HARNESS-ERROR", s["harness_error"], file=sys.stderr)
        return 2
    want = scn.get("found", {})
    vs = own_violations(check, s)
    same = [v for v in vs if v["kind"] == want.get("kind")]
    if same:
        v = same[0]
        exact = (v.get("event") == want.get("event"))
        print(f"VIOLATION property={prop} replay={path}")
        print(f"#   reproduced kind={v['kind']} event={v.get('event')} (recorded event={want.get('event')}, "
              f"identical={exact}) detail={json.dumps(v.get('detail'), default=str)[:500]}")
        return 1
    if vs:
        print(f"# replay: different violation of {prop}: {[v['kind'] for v in vs]}")
        print(f"VIOLATION property={prop} replay={path}")
        return 1
    print(f"# replay: no violation of {prop} reproduced on this tree (recorded kind={want.get('kind')})")
    return 0
