"""Determinism self-test of the harness (DESIGN.md section 8): the same scenarios are executed in this
process at two worker counts and in fresh interpreters under two hash seeds; the per-run digests of the
full recorded event trace, the violations and the counters must be identical."""
import json
import multiprocessing as mp
import os
import subprocess
import sys
from concurrent.futures import ProcessPoolExecutor

from . import env, seeds


def items_for(n: int):
    from . import checks
    reg = checks.registry()
    out = []
    for pid in ("C01", "C04", "C05", "C06", "C09", "C10", "C11", "C12", "C13", "C14", "C15", "C16", "C17", "C18", "C20"):
        for bi, b in enumerate(reg[pid].batches):
            k = n if b.name != "A-clock" else max(2, n // 10)
            for idx in range(k):
                out.append((pid, bi, idx))
    return out


def one(item):
    from . import checks, engine
    pid, bi, idx = item
    reg = checks.registry()
    chk = reg[pid]
    b = chk.batches[bi]
    scn = engine.scenario_for(chk, b, 4242, idx)
    res = engine.run_guarded(chk, scn, b.budget_s, b.run)
    s = engine.summarize(chk, b, idx, scn, res)
    key = json.dumps([s.get("digest"), s.get("violations"), s.get("stats"), s.get("probes"), s.get("n_events")],
                     sort_keys=True, default=str)
    return seeds.digest(key)[:20]


def compute(items, jobs):
    with ProcessPoolExecutor(max_workers=jobs, mp_context=mp.get_context("fork")) as ex:
        return list(ex.map(one, items, chunksize=8))


def main(argv):
    if argv and argv[0] == "--child":
        n = int(argv[1])
        jobs = int(argv[2])
        print("DIGESTS " + json.dumps(compute(items_for(n), jobs)))
        return 0
    n = int(argv[0]) if argv else 20
    items = items_for(n)
    runs = {}
    runs["in-process jobs=3"] = compute(items, 3)
    runs["in-process jobs=16"] = compute(items, 16)
    for hs, jobs in (("0", 16), ("12345", 5), ("987654321", 16)):
        e = dict(os.environ, PYTHONHASHSEED=hs, VERIF_NO_REEXEC="1")
        p = subprocess.run([sys.executable, os.path.join(env.VERIF, "run_check.py"), "--selftest-determinism", "--child", str(n), str(jobs)],
                           capture_output=True, text=True, env=e, timeout=3600)
        line = [l for l in p.stdout.splitlines() if l.startswith("DIGESTS ")]
        if not line:
            print("child failed", p.stderr[-800:])
            return 2
        runs[f"fresh interpreter PYTHONHASHSEED={hs} jobs={jobs}"] = json.loads(line[0][8:])
    ref = runs["in-process jobs=3"]
    bad = 0
    for k, v in runs.items():
        diff = [items[i] for i in range(len(items)) if v[i] != ref[i]]
        print(f"{k}: {len(v)} runs, {len(diff)} differ from reference {diff[:5]}")
        bad += len(diff)
    print("DETERMINISM", "OK" if bad == 0 else "FAILED", f"({len(items)} scenarios x {len(runs)} executions)")
    return 0 if bad == 0 else 1
