"""One integer decides everything: SHA-256 derived seeds (never Python's hash())."""
import hashlib
import random
from typing import Any


def derive(*parts: Any) -> int:
    h = hashlib.sha256("/".join(str(p) for p in parts).encode()).digest()
    return int.from_bytes(h[:8], "big")


def rng(*parts: Any) -> random.Random:
    return random.Random(derive(*parts))


def digest(obj: Any) -> str:
    return hashlib.sha256(repr(obj).encode()).hexdigest()
