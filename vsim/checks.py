"""Check registry: property id -> generators, monitors, bounds (DESIGN.md section 4)."""
from typing import Dict

from .engine import Batch, Check
from . import c07, c18, gen_a, gen_b, gen_f, oracles_a, oracles_c20, oracles_rules


def _wd_c03(where):
    for fn, name in where:
        if fn.endswith("pams/market.py") and name in ("_execution", "remain_executable_orders", "_execute_orders"):
            return "C03"
    return None


ENGINE_ON = {"C01", "C02", "C03", "C04", "C08", "C19"}


def _c09_post(results):
    """the configured probability of a high-frequency phase after a batch, judged over all runs of the check:
    a binomial count with a 7-sigma bound (false-alarm probability below 1e-11 per rate)."""
    import math
    agg = {}
    for r in results:
        st = r.get("stats", {})
        for k, v in st.items():
            if k.startswith("hft_opportunities@"):
                rate = k.split("@", 1)[1]
                a = agg.setdefault(rate, [0, 0, []])
                a[0] += v
                a[1] += st.get("hft_phases@" + rate, 0)
                a[2].append([r["batch"], r["idx"]])
    from scipy.stats import binom
    out = []
    for rate, (n, k, runs) in sorted(agg.items()):
        p = float(rate)
        if n < 200:
            continue
        # exact two-sided binomial test at 1e-11 (with few expected events the sample simply cannot reject)
        tail = min(float(binom.cdf(k, n, p)), float(binom.sf(k - 1, n, p)))
        if tail < 1e-11:
            out.append({"kind": "hft_phase_frequency", "runs": runs,
                        "detail": {"configured_rate": p, "batches": n, "followed_by_phase": k, "expected": n * p,
                                   "binomial_tail_probability": tail}})
    return out


def _c20_exc(err, scn, res):
    """an exception inside an agent counts only if every market is in an admissible state (prices > 0)."""
    mon = res.get("_mon")
    fr = err.get("pams_frame") or ["", ""]
    if not fr[0].startswith("pams/agents/"):
        return None
    if err.get("type") in ("AssertionError", "OverflowError", "ZeroDivisionError") or "math domain" in err.get("msg", ""):
        # the agent's own input assertions (e.g. a normal-margin price drawn below zero) or the numerical
        # range of the documented formula being exceeded (exp overflow with a very long window and a price far
        # from the fundamental): the situation is outside the admissible inputs; listed as an anomaly, never
        # as a violation (a wrong formula is caught by the comparison with the reference strategy instead)
        return ""
    try:
        for m in mon.markets:
            if not all(p > 0 for p in m.get_market_prices()) or not all(p > 0 for p in m.get_fundamental_prices()):
                return ""
            for book in (m.get_buy_order_book(), m.get_sell_order_book()):
                if any(q is not None and not (q > 0) for q in book):
                    return ""
    except Exception:
        return None
    return "C20"


def _wd_c18(where):
    for fn, name in where:
        if fn.endswith("pams/utils/json_extends.py") or fn.endswith("pams/runners/sequential.py") and name.startswith("_generate"):
            return "C18"
    return None


def _c18_exc(err, scn, res):
    if res.get("phase") in ("setup", "construct"):
        return "C18"
    return None


def registry() -> Dict[str, Check]:
    reg: Dict[str, Check] = {}
    reg["C01"] = Check(
        "C01", {"C01"},
        [Batch("B-mix", gen_b.gen_history, 20000, 400000, driver="B", budget_s=30.0),
         Batch("A-engine", gen_a.gen_engine, 2500, 40000, driver="A", budget_s=90.0, profile="engine"),
         Batch("B-deep", gen_b.gen_deep, 64, 3000, driver="B", budget_s=300.0, profile="deep"),
         Batch("A-scale", gen_a.gen_scale, 12, 240, driver="A", budget_s=600.0, profile="scale")],
        nontrivial=lambda s: s["probes"].get("round_ge3_fills", 0) + s["probes"].get("last_pair_prices_differ", 0) > 0,
        rule="Seeded driver-B histories / driver-A runs; non-trivial = at least one matching round whose last pair "
             "had different limit prices or that produced >= 3 fills.",
        need_probes=["round_ge3_fills", "multi_level_sweep", "equal_time_tie_by_id", "market_vs_market_pair",
                     "crossed_book_cleared", "last_pair_prices_differ"],
    )
    reg["C02"] = Check(
        "C02", {"C02"},
        [Batch("B-mix", gen_b.gen_history, 15000, 400000, driver="B", budget_s=30.0),
         Batch("A-engine", gen_a.gen_engine, 2500, 40000, driver="A", budget_s=90.0, profile="engine"),
         Batch("B-deep", gen_b.gen_deep, 64, 3000, driver="B", budget_s=300.0, profile="deep"),
         Batch("A-scale", gen_a.gen_scale, 12, 240, driver="A", budget_s=600.0, profile="scale")],
        nontrivial=lambda s: s["probes"].get("cmp_tie_price_time", 0) > 0 and s["stats"].get("rounds_nonempty", 0) > 0,
        rule="Seeded driver-B histories / driver-A runs; non-trivial = at least one non-empty round and at least one "
             "pair of live orders tied in price and time compared.",
        need_probes=["cmp_tie_price_time", "resting_order_filled_again", "multi_level_sweep"],
    )
    reg["C03"] = Check(
        "C03", {"C03"},
        [Batch("B-mix", gen_b.gen_history, 20000, 400000, driver="B", budget_s=30.0),
         Batch("A-engine", gen_a.gen_engine, 2500, 40000, driver="A", budget_s=90.0, profile="engine"),
         Batch("B-deep", gen_b.gen_deep, 64, 3000, driver="B", budget_s=300.0, profile="deep"),
         Batch("A-scale", gen_a.gen_scale, 12, 240, driver="A", budget_s=600.0, profile="scale")],
        nontrivial=lambda s: s["probes"].get("crossed_book_cleared", 0) + s["probes"].get("market_vs_market_pair", 0) > 0,
        rule="Seeded driver-B histories / driver-A runs; non-trivial = a crossed book accumulated during an outage was "
             "cleared by one round with >= 2 fills, or market orders met market orders.",
        watchdog_prop=_wd_c03,
        need_probes=["crossed_book_cleared", "market_vs_market_pair", "market_orders_face_each_other_after_round"],
    )
    reg["C04"] = Check(
        "C04", {"C04"},
        [Batch("B-mix", gen_b.gen_history, 15000, 400000, driver="B", budget_s=30.0),
         Batch("A-engine", gen_a.gen_engine, 3000, 40000, driver="A", budget_s=90.0, profile="engine_hostile"),
         Batch("B-deep", gen_b.gen_deep, 32, 2000, driver="B", budget_s=300.0, profile="deep"),
         Batch("A-scale", gen_a.gen_scale, 12, 240, driver="A", budget_s=600.0, profile="scale")],
        nontrivial=lambda s: s["stats"].get("expiries", 0) > 0 and s["stats"].get("cancels", 0) > 0,
        rule="Seeded driver-B histories / driver-A runs; non-trivial = at least one expiry and one cancel happened.",
        need_probes=["partial_fill_then_cancel", "partial_fill_then_expiry", "cancel_after_filled", "cancel_after_expired",
                     "cancel_after_cancelled", "fill_in_last_live_step", "cancel_in_last_live_step", "hostile_rejected"],
    )
    reg["C08"] = Check(
        "C08", {"C08"},
        [Batch("B-mix", gen_b.gen_history, 15000, 400000, driver="B", budget_s=30.0),
         Batch("A-engine", gen_a.gen_engine, 3000, 40000, driver="A", budget_s=90.0, profile="engine"),
         Batch("B-deep", gen_b.gen_deep, 32, 2000, driver="B", budget_s=300.0, profile="deep"),
         Batch("A-scale", gen_a.gen_scale, 12, 240, driver="A", budget_s=600.0, profile="scale")],
        nontrivial=lambda s: s["probes"].get("book_event_while_stopped", 0) > 0 and s["stats"].get("fills", 0) > 0,
        rule="Seeded driver-B histories / driver-A runs; non-trivial = book events happened while the market was not "
             "running and at least one fill happened.",
        need_probes=["book_event_while_stopped", "stopped_mid_differs_from_price", "running_toggled"],
    )
    reg["C19"] = Check(
        "C19", {"C19"},
        [Batch("B-mix", gen_b.gen_history, 15000, 400000, driver="B", budget_s=30.0),
         Batch("A-engine", gen_a.gen_engine, 2000, 30000, driver="A", budget_s=90.0, profile="engine"),
         Batch("B-deep", gen_b.gen_deep, 64, 3000, driver="B", budget_s=300.0, profile="deep")],
        nontrivial=lambda s: s["probes"].get("c19_off_grid_buy", 0) > 0 and s["probes"].get("c19_off_grid_sell", 0) > 0,
        rule="Every accepted limit order of every history is an instance; non-trivial = off-grid prices on both sides "
             "were accepted in the run.",
        need_probes=["c19_off_grid_buy", "c19_off_grid_sell", "c19_on_grid"],
    )
    reg["C05"] = Check(
        "C05", {"C05"},
        [Batch("A-ledger", gen_a.gen_world, 4000, 40000, driver="A", budget_s=90.0, profile="ledger"),
         Batch("B-mix", gen_b.gen_history, 15000, 200000, driver="B", budget_s=30.0),
         Batch("A-scale", gen_a.gen_scale, 12, 240, driver="A", budget_s=600.0, profile="scale"),
         Batch("A-long", gen_a.gen_long, 400, 8000, driver="A", budget_s=300.0, profile="world:ledger")],
        plugins=lambda: [oracles_a.LedgerPlugin()],
        nontrivial=lambda s: s["stats"].get("fills", 0) >= 3,
        rule="Driver-A runs (markets incl. index, scripted normal/HFT agents, built-in agents) and driver-B "
             "histories; non-trivial = at least 3 fills.",
        need_probes=["self_trade", "round_ge3_fills"],
    )
    reg["C06"] = Check(
        "C06", {"C06"},
        [Batch("A-clock", gen_a.gen_world, 300, 6000, driver="A", budget_s=240.0, profile="clock"),
         Batch("A-scale", gen_a.gen_scale, 12, 240, driver="A", budget_s=900.0, profile="scale")],
        plugins=lambda: [oracles_a.ClockPlugin(), oracles_a.IndexPlugin()],
        nontrivial=lambda s: s["probes"].get("storage_chunk_boundary_crossed", 0) > 0 and s["stats"].get("fills", 0) > 0,
        rule="Driver-A runs with 1-5 sessions, small storage/generation chunks or > 200 steps; non-trivial = a storage "
             "chunk boundary was crossed and at least one fill happened.",
        need_probes=["storage_chunk_boundary_crossed"],
    )
    reg["C09"] = Check(
        "C09", {"C09", "C03"},
        [Batch("A-sessions", gen_a.gen_world, 6000, 80000, driver="A", budget_s=90.0, profile="sessions"),
         Batch("A-crowd", gen_a.gen_crowd, 200, 4000, driver="A", budget_s=300.0, profile="crowd"),
         Batch("A-rates", gen_a.gen_rates, 480, 4800, driver="A", budget_s=120.0, profile="rates"),
         Batch("A-long", gen_a.gen_long, 400, 8000, driver="A", budget_s=300.0, profile="world:sessions")],
        plugins=lambda: [oracles_a.SessionRulesPlugin()],
        nontrivial=lambda s: s["probes"].get("normal_cap_reached", 0) + s["probes"].get("hft_cap_reached", 0) > 0,
        rule="Driver-A runs over session lists with all flag combinations, caps incl. 0, rates incl. 0 and 1, "
             "scripted normal and HFT agents, built-in events; non-trivial = a cap was reached.",
        need_probes=["normal_cap_reached", "hft_cap_reached", "hft_coin_yes", "hft_coin_no"],
        post=_c09_post,
    )
    reg["C10"] = Check(
        "C10", {"C10", "C04"},
        [Batch("A-logger", gen_a.gen_world, 5000, 60000, driver="A", budget_s=90.0, profile="logger"),
         Batch("A-scale", gen_a.gen_scale, 12, 240, driver="A", budget_s=900.0, profile="scale"),
         Batch("A-long", gen_a.gen_long, 400, 8000, driver="A", budget_s=300.0, profile="world:logger")],
        plugins=lambda: [oracles_a.LoggerPlugin()],
        nontrivial=lambda s: s["stats"].get("fills", 0) > 0 and s["stats"].get("expiries", 0) > 0 and s["stats"].get("cancels", 0) > 0,
        rule="Driver-A runs with all event kinds; non-trivial = the run contained fills, cancels and expiries.",
    )
    reg["C11"] = Check(
        "C11", {"C11"},
        [Batch("A-callbacks", gen_a.gen_world, 5000, 60000, driver="A", budget_s=90.0, profile="callbacks"),
         Batch("B-mix", gen_b.gen_history, 6000, 100000, driver="B", profile="mix"),
         Batch("A-scale", gen_a.gen_scale, 12, 240, driver="A", budget_s=900.0, profile="scale"),
         Batch("A-long", gen_a.gen_long, 400, 8000, driver="A", budget_s=300.0, profile="world:callbacks")],
        plugins=lambda: [oracles_a.CallbackPlugin()],
        nontrivial=lambda s: s["stats"].get("fills", 0) > 0 and s["stats"].get("cancels", 0) > 0,
        rule="Driver-A runs with scripted normal and HFT agents; non-trivial = fills and cancels happened.",
        need_probes=["self_trade_callback", "round_ge3_fills"],
    )
    reg["C13"] = Check(
        "C13", {"C13"},
        [Batch("A-hooks", gen_a.gen_world, 5000, 60000, driver="A", budget_s=90.0, profile="hooks"),
         Batch("A-long", gen_a.gen_long, 400, 8000, driver="A", budget_s=300.0, profile="world:hooks")],
        plugins=lambda: [oracles_a.HooksPlugin()],
        nontrivial=lambda s: s["stats"].get("probe_calls", 0) > 0 and s["stats"].get("fills", 0) > 0,
        rule="Driver-A runs with 1-6 generated probe events (hook kinds x time lists x market filters); "
             "non-trivial = probes were invoked and fills happened.",
        need_probes=["hook_altered_order"],
    )
    reg["C17"] = Check(
        "C17", {"C17"},
        [Batch("A-index", gen_a.gen_world, 4000, 50000, driver="A", budget_s=90.0, profile="index"),
         Batch("A-long", gen_a.gen_long, 400, 8000, driver="A", budget_s=300.0, profile="world:index")],
        plugins=lambda: [oracles_a.IndexPlugin()],
        nontrivial=lambda s: s["probes"].get("unequal_weights_checked", 0) > 0 and s["stats"].get("fills", 0) > 0,
        rule="Driver-A runs with an index market over 2-4 components with unequal outstanding shares; "
             "non-trivial = unequal weights and at least one fill.",
        need_probes=["unequal_weights_checked"],
    )
    reg["C14"] = Check(
        "C14", {"C14", "C19"},
        [Batch("A-shocks", gen_a.gen_rules, 6000, 80000, driver="A", budget_s=90.0, profile="shocks"),
         Batch("A-long", gen_a.gen_long, 400, 8000, driver="A", budget_s=300.0, profile="rules:shocks")],
        plugins=lambda: [oracles_rules.ShockPlugin()],
        nontrivial=lambda s: s["probes"].get("fund_shock_fired", 0) + s["probes"].get("mistake_replaced", 0) > 0,
        rule="Driver-A runs with 2-4 markets and 1-4 fundamental / order-mistake shocks; non-trivial = a shock fired.",
        need_probes=["fund_shock_fired", "mistake_replaced", "mistake_foreign_market_order_first", "mistake_rate_zero",
                     "fund_shock_on_zero_vol"],
    )
    reg["C15"] = Check(
        "C15", {"C15", "C19"},
        [Batch("A-limit", gen_a.gen_rules, 6000, 80000, driver="A", budget_s=90.0, profile="limit"),
         Batch("A-long", gen_a.gen_long, 400, 8000, driver="A", budget_s=300.0, profile="rules:limit")],
        plugins=lambda: [oracles_rules.PriceLimitPlugin()],
        nontrivial=lambda s: s["probes"].get("c15_clipped_high", 0) + s["probes"].get("c15_clipped_low", 0) > 0,
        rule="Driver-A runs with 2-4 markets and a price limit rule on a subset; non-trivial = a price was clipped.",
        need_probes=["c15_clipped_high", "c15_clipped_low", "c15_on_edge", "c15_inside", "c15_non_target_order_seen",
                     "c15_market_order_on_target", "c15_fill_between_banded_orders"],
    )
    reg["C16"] = Check(
        "C16", {"C16"},
        [Batch("A-halt", gen_a.gen_rules, 5000, 60000, driver="A", budget_s=90.0, profile="halt"),
         Batch("B-mix", gen_b.gen_history, 10000, 150000, driver="B", budget_s=30.0),
         Batch("A-long", gen_a.gen_long, 400, 8000, driver="A", budget_s=300.0, profile="rules:halt")],
        plugins=lambda: [oracles_rules.HaltPlugin(), oracles_a.SessionRulesPlugin()],
        nontrivial=lambda s: s["probes"].get("halt_triggered", 0) > 0,
        rule="Driver-A runs with trading halt rules and price-walking scripted agents; non-trivial = a halt was triggered.",
        need_probes=["halt_triggered", "halt_released_by_timeout", "halt_ended_by_session_end", "second_halt_moved_line",
                     "order_accepted_during_halt", "cancel_accepted_during_halt", "deviation_between_1x_and_moved_line"],
    )
    reg["C12"] = Check(
        "C12", {"C12"},
        [Batch("F-scripted", gen_f.gen_fund, 15000, 150000, driver="F", budget_s=30.0, profile="scripted"),
         Batch("F-real", gen_f.gen_fund, 6000, 60000, driver="F", budget_s=30.0, profile="real"),
         Batch("F-moments", gen_f.gen_moments, 16, 320, driver="F", budget_s=120.0, profile="moments"),
         Batch("A-shocks", gen_a.gen_rules, 1500, 20000, driver="A", budget_s=90.0, profile="shocks")],
        plugins=lambda: [oracles_rules.ShockPlugin(label="C12")],
        nontrivial=lambda s: s["probes"].get("scripted_covariance_checked", 0) + s["probes"].get("zero_vol_step", 0) > 0
        and s["stats"].get("f_steps", 0) >= 20,
        rule="Driver-F histories: 1-5 markets, random positive-definite correlations, generation chunks 2-9 or 100, "
             "parameter changes and shocks at the current time; non-trivial = the covariance law was checked through the "
             "randomness seam or an exact zero-volatility path was followed, over >= 20 steps.",
        need_probes=["scripted_covariance_checked", "scripted_covariance_with_correlation", "scripted_linearity_checked",
                     "zero_vol_step", "moments_checked", "fund_shock_on_zero_vol", "generation_chunk_boundary_crossed", "change_shock", "change_drift", "change_vol",
                     "change_corr", "change_uncorr"],
    )
    reg["C20"] = Check(
        "C20", {"C20"},
        [Batch("A-agents", gen_a.gen_agents, 3000, 40000, driver="A", budget_s=90.0, profile="agents"),
         Batch("A-long", gen_a.gen_long, 400, 8000, driver="A", budget_s=300.0, profile="agents:")],
        plugins=lambda: [oracles_c20.AgentsPlugin()],
        exc_is_violation=_c20_exc,
        nontrivial=lambda s: s["stats"].get("agent_decisions", 0) >= 5 and s["stats"].get("fills", 0) > 0,
        rule="Driver-A runs in which probe subclasses of all built-in agents trade next to scripted agents shaping the "
             "state; non-trivial = at least 5 agent decisions were compared with the reference strategy and a fill happened.",
        need_probes=["fcn_buy", "fcn_sell", "fcn_chart_term_nonzero", "fcn_fund_term_nonzero", "fcn_margin_extreme",
                     "fcn_window_1", "mm_base_from_quotes", "mm_base_from_market_price", "arb_basket_buy_index",
                     "arb_basket_sell_index", "arb_below_threshold", "arb_not_running", "msfcn_some_market_has_volume",
                     "test_agent_decision"],
    )
    reg["C18"] = Check(
        "C18", {"C18"},
        [Batch("A-config", c18.gen_config, 20000, 300000, driver="A", budget_s=10.0, profile="valid"),
         Batch("A-hostile-config", c18.gen_config, 4000, 60000, driver="A", budget_s=10.0, profile="hostile")],
        plugins=lambda: [c18.ConfigPlugin()],
        exc_is_violation=_c18_exc, watchdog_prop=_wd_c18,
        nontrivial=lambda s: s["stats"].get("c18_entities", 0) >= 3 or any(k.startswith("hostile_config_rejected") for k in s["probes"]),
        rule="Generated configs written through inheritance chains (depth 0-5, shared parents, overridden and "
             "non-inheritable keys on ancestors), counts and inclusive ranges, prefixes, JsonRandom specs, legacy session "
             "keys and user-registered classes, built by the real setup and compared with a reference expansion; hostile "
             "configs must be rejected with the documented error within the watchdog. Non-trivial = >= 3 entities compared "
             "or a hostile config rejected.",
        need_probes=["c18_legacy_key", "c18_fcn_params_checked", "c18_event_checked"],
    )
    reg["C07"] = Check(
        "C07", {"C07"},
        [Batch("A-kitchen", c07.gen_kitchen, 80, 1500, driver="A", run=c07.run_c07, budget_s=900.0, profile="kitchen"),
         Batch("A-kitchen-crowd", c07.gen_kitchen, 16, 300, driver="A", run=c07.run_c07, budget_s=1800.0, profile="crowd")],
        nontrivial=lambda s: s["stats"].get("fills", 0) > 0 and s["stats"].get("expiries", 0) > 0,
        rule="Kitchen-sink driver-A scenarios (all built-in agent, market and event types, correlated fundamentals, "
             "scripted agents drawing from the global generators, probes), each executed in process under two other "
             "global-generator states, after an unrelated run, and in two (quick) or three (thorough) fresh interpreters "
             "under other hash seeds; non-trivial = the run had fills and expiries.",
        need_probes=["fresh_interpreter_runs", "global_generator_perturbations"],
    )
    return reg
