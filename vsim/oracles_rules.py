"""Rule-event oracles: C14 shocks, C15 price limit rule, C16 trading halt rule.
They use the taps the scenario compiler inserts around every configured event (DESIGN.md 2.3).
"""
import math
from typing import Any, Dict, List, Optional, Tuple

from . import env  # noqa: F401
from .monitor import Plugin, close, REL

from pams.index_market import IndexMarket  # noqa: E402
from pams.order import LIMIT_ORDER, MARKET_ORDER  # noqa: E402


def resolved_settings(cfg: Dict[str, Any], name: str) -> Dict[str, Any]:
    """reference 'extends' resolution for event settings (own keys, then nearest ancestor)."""
    cur = dict(cfg[name])
    seen = [name]
    while "extends" in cur:
        par = cur.pop("extends")
        if par in seen or par not in cfg:
            break
        seen.append(par)
        for k, v in cfg[par].items():
            if k not in cur and k not in ("numMarkets", "from", "to", "prefix"):
                cur[k] = v
    return cur


def order_snap(order) -> Tuple:
    return (id(order), order.market_id, order.is_buy, order.kind, order.price, order.volume, order.ttl, order.agent_id)


class SlotPlugin(Plugin):
    """shared: locate the slots (tap before / tap after) of the events of one class."""
    CLASS = ""

    def attach(self, mon):
        cfg = mon.ext.get("cfg", {})
        self.slots = []
        starts = []
        acc = 0
        for s in mon.sessions_cfg:
            starts.append(acc)
            acc += int(s["iterationSteps"])
        self.starts = starts
        self.total = acc
        for sl in mon.ext.get("event_slots", []):
            st = resolved_settings(cfg, sl["name"])
            if st.get("class") == self.CLASS:
                d = dict(sl)
                d["settings"] = st
                d["start"] = starts[sl["session"]]
                d["steps"] = int(mon.sessions_cfg[sl["session"]]["iterationSteps"])
                self.slots.append(d)
        self.mon = mon
        self.setup(mon)

    def setup(self, mon):
        pass

    def cur_session(self, mon) -> Optional[int]:
        s = mon.sim.current_session
        return None if s is None else s.session_id


# ====================================================================== C15
class PriceLimitPlugin(SlotPlugin):
    CLASS = "PriceLimitRule"

    def setup(self, mon):
        self.snap: Dict[int, Tuple] = {}
        self.in_session_orders: Dict[Tuple[int, int], Tuple[float, float]] = {}
        self.pending_band = None
        cfg = mon.ext.get("cfg", {})
        specs = mon.ext.get("probe_specs", {}) or {}
        self.other_rewriters = any(isinstance(v, dict) and v.get("class") in ("OrderMistakeShock",) for v in cfg.values()) \
            or any(sp.get("alter") or sp.get("rewrite") for sp in specs.values())

    def on_tap(self, mon, idx, phase, kind, obj):
        if kind != "order_before" or phase != "n":
            return
        self.snap[idx] = order_snap(obj)
        for sl in self.slots:
            if sl["after"] != idx:
                continue
            before = self.snap.get(sl["before"])
            if before is None or before[0] != id(obj):
                continue
            self.check_slot(mon, sl, before, order_snap(obj), obj)

    def check_slot(self, mon, sl, b, a, order):
        st = sl["settings"]
        enabled = st.get("enabled", True)
        market = mon.sim.id2market[order.market_id]
        targets = st.get("targetMarkets", [])
        r = float(st.get("triggerChangeRate", 0.0))
        own = self.cur_session(mon) == sl["session"]
        # fields other than the price never change
        if (b[1], b[2], b[3], b[5], b[6], b[7]) != (a[1], a[2], a[3], a[5], a[6], a[7]):
            mon.viol("C15", "rule_changed_other_fields", {"rule": sl["name"], "before": repr(b[1:]), "after": repr(a[1:])})
        p, q = b[4], a[4]
        if not enabled:
            if p != q:
                mon.viol("C15", "disabled_rule_changed_price", {"rule": sl["name"], "before": p, "after": q})
            return
        if market.name not in targets:
            mon.probe("c15_non_target_order_seen")
            if p != q:
                mon.viol("C15", "non_target_order_altered", {"rule": sl["name"], "market": market.name, "before": p, "after": q})
            return
        if p is None:
            mon.probe("c15_market_order_on_target")
            if q is not None:
                mon.viol("C15", "market_order_priced", {"rule": sl["name"], "after": q})
            return
        p0 = market.get_market_price(0)
        if not (p0 > 0) or r < 0:
            # a zero or negative time-0 price (a trade at a non-positive price during step 0) turns the band
            # inside out; the statement has nothing to say about that
            mon.probe("c15_nonpositive_reference_price_skipped")
            return
        lo, hi = p0 * (1 - r), p0 * (1 + r)
        eps = REL * max(abs(p0), abs(p))
        if p > hi + eps:
            want, tag = hi, "c15_clipped_high"
        elif p < lo - eps:
            want, tag = lo, "c15_clipped_low"
        elif lo + eps < p < hi - eps:
            want, tag = p, "c15_inside"
        else:
            want, tag = None, "c15_on_edge"
        mon.probe(tag)
        if want is None:
            ok = close(q, p, REL) or close(q, lo, REL) or close(q, hi, REL)
        elif tag == "c15_inside":
            ok = (q == p)
        else:
            ok = close(q, want, REL)
        if not ok:
            if own:
                mon.viol("C15", "clip_wrong", {"rule": sl["name"], "market": market.name, "p0": p0, "rate": r,
                                               "before": p, "after": q, "band": [lo, hi]})
            elif not (q == p):
                mon.viol("C15", "clip_wrong", {"rule": sl["name"], "market": market.name, "p0": p0, "rate": r,
                                               "before": p, "after": q, "band": [lo, hi], "outside_own_session": True})
        if own:
            self.pending_band = (id(order), lo, hi, sl["name"])

    def on_order_log(self, mon, log, o, mm, market, inf):
        # independent of the taps (which are hooks themselves and share the dispatch tables with the rule): inside
        # the session of the only enabled rule that covers this market, an accepted limit price lies in the band
        # widened by one tick.  Needs a final time-0 price (t >= 1) and nobody else rewriting prices.
        if not o.is_mkt and log.time >= 1 and not self.other_rewriters:
            cover = [sl for sl in self.slots if market.name in sl["settings"].get("targetMarkets", [])]
            if len(cover) == 1 and cover[0]["settings"].get("enabled", True) and self.cur_session(mon) == cover[0]["session"]:
                r_ = float(cover[0]["settings"].get("triggerChangeRate", 0.0))
                p0_ = market.get_market_price(0)
                if p0_ > 0 and r_ >= 0:
                    lo_, hi_ = p0_ * (1 - r_), p0_ * (1 + r_)
                    e_ = REL * max(abs(hi_), mm.tick)
                    mon.probe("c15_accepted_band_checked")
                    if not (lo_ - mm.tick - e_ <= log.price <= hi_ + mm.tick + e_):
                        mon.viol("C15", "accepted_outside_widened_band", {"rule": cover[0]["name"], "accepted": log.price,
                                                                           "band": [lo_, hi_], "tick": mm.tick, "time": log.time,
                                                                           "seen_by": "logger"})
        pb = self.pending_band
        self.pending_band = None
        if pb is None or inf is None or pb[0] != id(inf["obj"]) or o.is_mkt:
            return
        _, lo, hi, name = pb
        # only when this rule was the last to touch the price: the accepted price lies in the band widened by a tick
        later = [s for s in mon.ext.get("event_slots", []) if s["name"] != name]
        tick = mm.tick
        eps = REL * max(abs(hi), tick)
        if inf["price"] is not None and lo - eps <= inf["price"] <= hi + eps:
            if not (lo - tick - eps <= log.price <= hi + tick + eps):
                mon.viol("C15", "accepted_outside_widened_band", {"rule": name, "accepted": log.price, "band": [lo, hi], "tick": tick})
            if log.time >= 1:  # the time-0 price is final only once the clock has passed 0 (DESIGN 3.4)
                self.in_session_orders[(log.market_id, log.order_id)] = (lo - tick - eps, hi + tick + eps, name)

    def on_execution_log(self, mon, log, b, s, mm, market):
        kb = self.in_session_orders.get((log.market_id, log.buy_order_id))
        ks = self.in_session_orders.get((log.market_id, log.sell_order_id))
        if kb is not None and ks is not None and kb[2] == ks[2]:
            lo = max(kb[0], ks[0])
            hi = min(kb[1], ks[1])
            mon.probe("c15_fill_between_banded_orders")
            if not (lo <= log.price <= hi):
                mon.viol("C15", "trade_outside_band", {"price": log.price, "band": [lo, hi], "market": mm.name})


# ====================================================================== C14
class ShockPlugin(SlotPlugin):
    CLASS = "*"

    def __init__(self, label: str = "C14"):
        # the exact zero-volatility continuation and positivity belong to C12 as well: the C12 check runs
        # this plugin with label="C12" for those clauses
        self.label = label

    def attach(self, mon):
        self.CLASS = "FundamentalPriceShock"
        super().attach(mon)
        self.fslots = self.slots
        self.CLASS = "OrderMistakeShock"
        super().attach(mon)
        self.mslots = self.slots
        self.fsnap: Dict[Tuple[int, int], Dict[int, float]] = {}
        self.osnap: Dict[int, Tuple] = {}
        self.fired: Dict[str, List[int]] = {}
        self.replaced: Dict[str, int] = {}
        self.mistake_candidates: Dict[str, int] = {}
        self.chain_first: Optional[Tuple] = None
        self.prev_fund: Dict[int, float] = {}
        self.mistaken: List[Tuple] = []
        cfg = mon.ext.get("cfg", {})
        self.zero_vol = {}
        for m in mon.markets:
            if isinstance(m, IndexMarket):
                continue
            f = mon.sim.fundamentals
            # the *configured* parameters (defaults 0), not what the fundamentals object was told
            if m.name in cfg and isinstance(cfg[m.name], dict):
                st_ = resolved_settings(cfg, m.name)
                vol_, drift_ = float(st_.get("fundamentalVolatility", 0.0)), float(st_.get("fundamentalDrift", 0.0))
                if m.market_id in f.volatilities and (f.volatilities[m.market_id] != vol_ or f.drifts.get(m.market_id) != drift_):
                    mon.viol(self.label, "fundamental_parameters_differ_from_config",
                             {"market": m.name, "configured": [drift_, vol_], "registered": [f.drifts.get(m.market_id), f.volatilities[m.market_id]]})
            else:
                vol_, drift_ = f.volatilities.get(m.market_id, 1.0), f.drifts.get(m.market_id, 0.0)
            if vol_ == 0.0:
                self.zero_vol[m.market_id] = drift_

    def post_tick(self, mon, market, mm, t):
        # the mistaken order has the configured lifetime: once the clock has passed acceptance + lifetime it is
        # not in the book any more (whatever else happened to it)
        keep = []
        for order, mk, t0, life, name in self.mistaken:
            if mk is not market:
                keep.append((order, mk, t0, life, name))
                continue
            if order.placed_at is None or order.ttl != life:
                continue  # never accepted, or rewritten again by a later rule
            if t > order.placed_at + life:
                book = market.buy_order_book if order.is_buy else market.sell_order_book
                if any(x is order for x in book.priority_queue):
                    mon.viol(self.label if self.label == "C14" else "C14", "mistake_order_outlives_lifetime",
                             {"shock": name, "accepted_at": order.placed_at, "lifetime": life, "now": t, "market": market.name})
                mon.probe("mistake_order_lifetime_checked")
                continue
            keep.append((order, mk, t0, life, name))
        self.mistaken = keep

    def _funds(self, mon):
        return {m.market_id: m.get_fundamental_price() for m in mon.markets}

    def on_tap(self, mon, idx, phase, kind, obj):
        if kind == "market_before":
            if phase == "n" and idx == 0 and obj is mon.markets[0]:
                self.step_start(mon)
            if phase == "t":
                key = (idx, obj.market_id)
                self.fsnap[key] = self._funds(mon)
                for sl in self.fslots:
                    if sl["after"] == idx:
                        before = self.fsnap.get((sl["before"], obj.market_id))
                        if before is not None:
                            self.check_fund(mon, sl, obj, before, self.fsnap[key])
        elif kind == "order_before" and phase == "t":
            self.osnap[idx] = order_snap(obj)
            for sl in self.mslots:
                if sl["after"] == idx:
                    before = self.osnap.get(sl["before"])
                    if before is not None and before[0] == id(obj):
                        self.check_mistake(mon, sl, before, order_snap(obj), obj)

    def step_start(self, mon):
        """first hook of the step: zero-volatility fundamentals continue exactly from their level."""
        for m in mon.markets:
            v = m.get_fundamental_price()
            if not (isinstance(v, float) and math.isfinite(v) and v > 0):
                mon.viol(self.label, "fundamental_not_positive_finite", {"market": m.name, "t": m.get_time(), "value": v})
            mid = m.market_id
            if mid not in self.zero_vol:
                continue
            now = m.get_time()
            if now >= 1:
                prev = m.get_fundamental_price(now - 1)
                want = prev * math.exp(self.zero_vol[mid])
                got = m.get_fundamental_price(now)
                if not close(got, want, 1e-12):
                    mon.viol(self.label, "zero_vol_continuation", {"market": m.name, "t": now, "got": got, "want": want})
                mon.stat("zero_vol_steps")
                mon.probe("zero_vol_step")

    def check_fund(self, mon, sl, market, b, a):
        st = sl["settings"]
        enabled = st.get("enabled", True)
        tgt = st.get("target")
        rate = float(st.get("priceChangeRate", 0.0))
        trig = sl["start"] + int(st.get("triggerTime", 0))
        L = int(st.get("shockTimeLength", 1))
        now = market.get_time()
        in_window = enabled and market.name == tgt and trig <= now < trig + L
        for mid, v in b.items():
            w = a[mid]
            m2 = mon.sim.id2market[mid]
            if in_window and m2.name == tgt:
                want = v * (1 + rate)
                if not close(w, want, 1e-12):
                    mon.viol("C14", "shock_magnitude", {"shock": sl["name"], "t": now, "before": v, "after": w, "want": want})
                self.fired.setdefault(sl["name"], []).append(now)
                mon.probe("fund_shock_fired")
                if now >= sl["start"] + sl["steps"]:
                    mon.probe("fund_shock_window_crosses_session_end")
                if mid in self.zero_vol:
                    mon.probe("fund_shock_on_zero_vol")
            elif w != v:
                mon.viol("C14", "fundamental_changed_outside_shock",
                         {"shock": sl["name"], "dispatch_market": market.name, "changed_market": m2.name, "t": now,
                          "before": v, "after": w, "target": tgt, "window": [trig, trig + L - 1], "enabled": enabled})

    def check_mistake(self, mon, sl, b, a, order):
        st = sl["settings"]
        enabled = st.get("enabled", True)
        tgt = st.get("target")
        rate = float(st.get("priceChangeRate", 0.0))
        trig = sl["start"] + int(st.get("triggerTime", 0))
        market = mon.sim.id2market[b[1]]
        now = market.get_time()
        name = sl["name"]
        changed = b[1:] != a[1:]
        should = enabled and now == trig and market.name == tgt and self.replaced.get(name, 0) == 0
        if enabled and now == trig:
            mon.probe("mistake_trigger_time_order_seen")
            if market.name != tgt and self.replaced.get(name, 0) == 0:
                mon.probe("mistake_foreign_market_order_first")
        if should:
            tm = mon.sim.name2market[tgt]
            want_price = tm.get_market_price() * (1 + rate)
            ok = (a[1] == b[1] and a[2] == (rate > 0.0) and a[3] == LIMIT_ORDER and a[5] == int(st["orderVolume"])
                  and a[6] == int(st["orderTimeLength"]) and close(a[4], want_price, 1e-12) and a[7] == b[7])
            self.replaced[name] = self.replaced.get(name, 0) + 1
            mon.probe("mistake_replaced")
            self.mistaken.append((order, market, now, int(st["orderTimeLength"]), name))
            if rate == 0.0:
                mon.probe("mistake_rate_zero")
            if not ok:
                mon.viol("C14", "mistake_order_wrong", {"shock": name, "t": now, "before": repr(b[1:]), "after": repr(a[1:]),
                                                        "want": {"is_buy": rate > 0.0, "volume": st["orderVolume"], "ttl": st["orderTimeLength"],
                                                                 "price": want_price}})
        elif changed:
            mon.viol("C14", "order_replaced_unexpectedly",
                     {"shock": name, "t": now, "order_market": market.name, "target": tgt, "trigger": trig, "enabled": enabled,
                      "already_replaced": self.replaced.get(name, 0), "before": repr(b[1:]), "after": repr(a[1:])})

    def series_check(self, mon):
        """independent of the taps (which sit in the same dispatch tables as the shocks): along the recorded series
        of a zero-volatility market each step multiplies the fundamental by exp(drift) and by (1 + rate) once for
        every enabled shock whose window covers that step."""
        for m in mon.markets:
            mid = m.market_id
            if mid not in self.zero_vol or isinstance(m, IndexMarket):
                continue
            T = m.get_time()
            if T < 1:
                continue
            series = m.get_fundamental_prices(range(T + 1))
            for t in range(1, T + 1):
                factor = math.exp(self.zero_vol[mid])
                n_sh = 0
                for sl in self.fslots:
                    st = sl["settings"]
                    if not st.get("enabled", True) or st.get("target") != m.name:
                        continue
                    trig = sl["start"] + int(st.get("triggerTime", 0))
                    if trig <= t < trig + int(st.get("shockTimeLength", 1)) and t < self.total:
                        factor *= (1 + float(st.get("priceChangeRate", 0.0)))
                        n_sh += 1
                want = series[t - 1] * factor
                if not close(series[t], want, 1e-11):
                    mon.viol("C14" if n_sh else self.label, "shock_magnitude" if n_sh else "zero_vol_continuation",
                             {"market": m.name, "t": t, "got": series[t], "want": want, "shocks_due": n_sh, "seen_by": "recorded series"})
                    break
            mon.probe("zero_vol_series_checked")

    def finish(self, mon, completed):
        if not completed:
            return
        self.series_check(mon)
        for sl in self.fslots:
            st = sl["settings"]
            if not st.get("enabled", True):
                if self.fired.get(sl["name"]):
                    mon.viol("C14", "disabled_shock_fired", {"shock": sl["name"]})
                continue
            trig = sl["start"] + int(st.get("triggerTime", 0))
            L = int(st.get("shockTimeLength", 1))
            want = [t for t in range(trig, trig + L) if t < self.total]
            got = sorted(self.fired.get(sl["name"], []))
            if got != want:
                mon.viol("C14", "shock_window", {"shock": sl["name"], "fired_at": got, "want": want,
                                                 "session_start": sl["start"], "triggerTime": st.get("triggerTime")})


# ====================================================================== C16
class HaltPlugin(SlotPlugin):
    CLASS = "TradingHaltRule"

    def setup(self, mon):
        self.state: Dict[Tuple[str, int], Dict[str, Any]] = {}
        for sl in self.slots:
            for tn in sl["settings"].get("targetMarkets", []):
                m = mon.sim.name2market[tn]
                self.state[(sl["name"], m.market_id)] = {"halt_t0": None, "count_rule": 0, "count_mkt": 0,
                                                         "expect": None, "session": None}
        self.rule_count: Dict[str, int] = {sl["name"]: 0 for sl in self.slots}
        self.multi = {}
        per_market: Dict[int, int] = {}
        for (rn, mid) in self.state:
            per_market[mid] = per_market.get(mid, 0) + 1
        # markets governed by exactly one enabled rule with exactly one target are checked strictly
        self.strict = set()
        for sl in self.slots:
            tg = sl["settings"].get("targetMarkets", [])
            if len(tg) == 1:
                mid = mon.sim.name2market[tg[0]].market_id
                if per_market.get(mid, 0) == 1:
                    self.strict.add((sl["name"], mid))
        self.n_halt_rules_enabled = sum(1 for sl in self.slots if sl["settings"].get("enabled", True))
        self.last_running: Dict[int, bool] = {}
        self.pre_hook_running: Dict[int, bool] = {}

    def on_tap(self, mon, idx, phase, kind, obj):
        if phase != "n":
            return
        if kind == "execution_after":
            for sl in self.slots:
                if sl["before"] == idx:
                    self.pre_hook_running[obj.market_id] = mon.sim.id2market[obj.market_id].is_running
                if sl["after"] == idx:
                    self.after_exec_hook(mon, sl, obj)
        elif kind == "market_before":
            for sl in self.slots:
                if sl["after"] == idx:
                    self.after_step_hook(mon, sl, obj)

    def after_exec_hook(self, mon, sl, log):
        st = sl["settings"]
        if not st.get("enabled", True):
            return
        market = mon.sim.id2market[log.market_id]
        key = (sl["name"], log.market_id)
        if key not in self.state:
            return
        s = self.state[key]
        own = self.cur_session(mon) == sl["session"]
        was_running = self.pre_hook_running.get(log.market_id, True)
        now_running = market.is_running
        rate = float(st["triggerChangeRate"])
        p0 = market.get_market_price(0)
        # "its price" after a fill is the price of that fill (C08: the most recent trade price), taken from the
        # fill itself rather than from the market's own bookkeeping
        price = log.price
        dev = abs(p0 - price)
        lines = sorted({p0 * rate * (self.rule_count[sl["name"]] + 1), p0 * rate * (s["count_mkt"] + 1)})
        eps = REL * max(abs(p0), abs(price))
        if was_running:
            if not now_running:
                # a halt was triggered by this hook
                s["halt_t0"] = market.get_time()
                s["session"] = self.cur_session(mon)
                s["count_mkt"] += 1
                self.rule_count[sl["name"]] += 1
                mon.probe("halt_triggered")
                if s["count_mkt"] >= 2:
                    mon.probe("second_halt_moved_line")
                if own and key in self.strict and dev < lines[0] - eps:
                    mon.viol("C16", "halt_without_breach", {"rule": sl["name"], "market": market.name, "p0": p0, "price": price,
                                                            "deviation": dev, "line": lines, "t": market.get_time()})
            else:
                if own and key in self.strict and dev > lines[-1] + eps:
                    mon.viol("C16", "breach_without_halt", {"rule": sl["name"], "market": market.name, "p0": p0, "price": price,
                                                            "deviation": dev, "line": lines, "halts_so_far": s["count_mkt"],
                                                            "t": market.get_time()})
                elif dev < lines[0] - eps:
                    mon.probe("fill_below_halt_line")
                if s["count_mkt"] >= 1 and p0 * rate + eps < dev < lines[0] - eps:
                    mon.probe("deviation_between_1x_and_moved_line")

    def after_step_hook(self, mon, sl, market):
        st = sl["settings"]
        if not st.get("enabled", True):
            return
        key = (sl["name"], market.market_id)
        if key not in self.state:
            return
        s = self.state[key]
        own = self.cur_session(mon) == sl["session"]
        L = int(st["haltingTimeLength"])
        now = market.get_time()
        if s["halt_t0"] is not None and s["session"] == self.cur_session(mon):
            due = now > s["halt_t0"] + L
            if key in self.strict and own:
                if due and not market.is_running:
                    mon.viol("C16", "halt_not_released", {"rule": sl["name"], "market": market.name, "halted_at": s["halt_t0"],
                                                          "length": L, "now": now})
                if not due and market.is_running:
                    mon.viol("C16", "halt_released_early", {"rule": sl["name"], "market": market.name, "halted_at": s["halt_t0"],
                                                            "length": L, "now": now})
            if market.is_running:
                if due:
                    mon.probe("halt_released_by_timeout")
                s["halt_t0"] = None
        elif s["halt_t0"] is not None:
            # the session in which the market was halted has ended: the halt ended with it
            mon.probe("halt_ended_by_session_end")
            s["halt_t0"] = None

    def on_step_record(self, mon, log, code):
        m = log.market
        ses = log.session
        cfg = mon.sessions_cfg[ses.session_id]
        halted = [s for (rn, mid), s in self.state.items() if mid == m.market_id and s["halt_t0"] is not None
                  and s["session"] == ses.session_id]
        governed = any(mid == m.market_id for (rn, mid) in self.state)
        if not governed:
            # non-target markets follow the session switch only (a halt elsewhere does not stop *them*)
            return
        strict = all((rn, mid) in self.strict for (rn, mid) in self.state if mid == m.market_id)
        if not strict:
            return
        if halted:
            if m.is_running:
                mon.viol("C16", "halted_market_running", {"market": m.name, "t": m.get_time(), "halted_at": halted[0]["halt_t0"]})
            mon.probe("step_record_during_halt")
        else:
            want = bool(cfg["withOrderExecution"])
            if m.is_running != want:
                mon.viol("C16", "running_flag_without_halt", {"market": m.name, "t": m.get_time(), "running": m.is_running,
                                                              "session_execution": want})

    def on_order_log(self, mon, log, o, mm, market, inf):
        if not market.is_running and any(mid == market.market_id and s["halt_t0"] is not None for (rn, mid), s in self.state.items()):
            mon.probe("order_accepted_during_halt")

    def on_cancel_log(self, mon, log, o, mm, market):
        if not market.is_running and any(mid == market.market_id and s["halt_t0"] is not None for (rn, mid), s in self.state.items()):
            mon.probe("cancel_accepted_during_halt")
