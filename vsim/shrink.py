"""Structural delta debugging of a failing scenario while the same violation class persists."""
import copy
import time
from typing import Any, Callable, Dict, List, Tuple


def _get(scn, path):
    cur = scn
    for p in path:
        cur = cur[p]
    return cur


def _set(scn, path, val):
    cur = scn
    for p in path[:-1]:
        cur = cur[p]
    cur[path[-1]] = val


def list_sites(scn) -> List[Tuple]:
    sites: List[Tuple] = []
    if isinstance(scn.get("ops"), list):
        sites.append(("ops",))
    if isinstance(scn.get("fops"), list):
        sites.append(("fops",))
    cfg = scn.get("config", {})
    sim = cfg.get("simulation", {}) if isinstance(cfg, dict) else {}
    if isinstance(sim, dict):
        if isinstance(sim.get("sessions"), list) and len(sim["sessions"]) > 1:
            sites.append(("config", "simulation", "sessions"))
        if isinstance(sim.get("agents"), list) and len(sim["agents"]) > 1:
            sites.append(("config", "simulation", "agents"))
        if isinstance(sim.get("sessions"), list):
            for i, s in enumerate(sim["sessions"]):
                if isinstance(s, dict) and isinstance(s.get("events"), list) and s["events"]:
                    sites.append(("config", "simulation", "sessions", i, "events"))
    for name, turns in (scn.get("scripts") or {}).items():
        if isinstance(turns, list):
            sites.append(("scripts", name))
    for name, spec in (scn.get("probes") or {}).items():
        if isinstance(spec, dict) and isinstance(spec.get("hooks"), list) and len(spec["hooks"]) > 1:
            sites.append(("probes", name, "hooks"))
    return sites


def minimise(check, batch, scn: Dict[str, Any], v: Dict[str, Any], budget_s: float = 60.0):
    from .engine import run_guarded, summarize, own_violations
    t_end = time.time() + budget_s
    kind = v["kind"]
    runs = [0]

    def test(cand):
        runs[0] += 1
        try:
            res = run_guarded(check, cand, batch.budget_s, batch.run)
            s = summarize(check, batch, -1, cand, res)
        except Exception:
            return None
        if "harness_error" in s:
            return None
        for vv in own_violations(check, s):
            if vv["kind"] == kind:
                return vv
        return None

    best = copy.deepcopy(scn)
    best_v = test(best)
    if best_v is None:
        return scn, v

    def attempt(cand) -> bool:
        nonlocal best, best_v
        if time.time() > t_end:
            return False
        vv = test(cand)
        if vv is not None:
            best = cand
            best_v = vv
            return True
        return False

    progress = True
    while progress and time.time() < t_end:
        progress = False
        # 1. remove chunks from every list site
        for site in list_sites(best):
            try:
                lst = _get(best, site)
            except Exception:
                continue
            n = len(lst)
            chunk = max(1, n // 2)
            while chunk >= 1 and time.time() < t_end:
                i = 0
                removed_any = False
                while i < len(_get(best, site)):
                    cur = _get(best, site)
                    cand = copy.deepcopy(best)
                    new = cur[:i] + cur[i + chunk:]
                    if site[0] == "config" and site[-1] in ("sessions", "agents") and len(new) == 0:
                        i += chunk
                        continue
                    _set(cand, site, copy.deepcopy(new))
                    if attempt(cand):
                        progress = True
                        removed_any = True
                    else:
                        i += chunk
                if chunk == 1:
                    break
                chunk = max(1, chunk // 2)
        # 2. script turns: empty a turn / drop ops inside a turn
        for name in list((best.get("scripts") or {}).keys()):
            turns = best["scripts"][name]
            for ti in range(len(turns)):
                if time.time() > t_end:
                    break
                if not best["scripts"][name][ti]:
                    continue
                cand = copy.deepcopy(best)
                cand["scripts"][name][ti] = []
                if attempt(cand):
                    progress = True
                    continue
                oi = 0
                while oi < len(best["scripts"][name][ti]) and len(best["scripts"][name][ti]) > 1:
                    cand = copy.deepcopy(best)
                    del cand["scripts"][name][ti][oi]
                    if attempt(cand):
                        progress = True
                    else:
                        oi += 1
        # 3. numbers
        cfg = best.get("config", {})
        sim = cfg.get("simulation", {}) if isinstance(cfg, dict) else {}
        if isinstance(sim, dict) and isinstance(sim.get("sessions"), list):
            for i, s in enumerate(sim["sessions"]):
                if not isinstance(s, dict):
                    continue
                st = s.get("iterationSteps")
                if isinstance(st, int) and st > 1:
                    for new in (1, st // 2, st - 1):
                        if new < 1 or new >= st:
                            continue
                        cand = copy.deepcopy(best)
                        cand["config"]["simulation"]["sessions"][i]["iterationSteps"] = new
                        if attempt(cand):
                            progress = True
                            break
        if isinstance(cfg, dict):
            for key, val in list(cfg.items()):
                if isinstance(val, dict) and isinstance(val.get("numAgents"), int) and val["numAgents"] > 1:
                    for new in (1, val["numAgents"] // 2, val["numAgents"] - 1):
                        if new < 1 or new >= val["numAgents"]:
                            continue
                        cand = copy.deepcopy(best)
                        cand["config"][key]["numAgents"] = new
                        if attempt(cand):
                            progress = True
                            break
        if best.get("knobs"):
            for k in list(best["knobs"].keys()):
                if best["knobs"][k] is not None:
                    cand = copy.deepcopy(best)
                    cand["knobs"][k] = None
                    if attempt(cand):
                        progress = True
        # 4. simpler ops
        for key in ("ops", "fops"):
            if isinstance(best.get(key), list):
                for i, op in enumerate(best[key]):
                    if time.time() > t_end:
                        break
                    for fld, simple in (("vol", 1), ("ttl", None), ("cont", None), ("a", 0), ("nth", 0)):
                        if fld in op and op[fld] != simple:
                            cand = copy.deepcopy(best)
                            if simple is None:
                                del cand[key][i][fld]
                            else:
                                cand[key][i][fld] = simple
                            if attempt(cand):
                                progress = True
    # 5. drop what is no longer referenced: config entries, scripts of agents that do not exist, idle probes
    cand = cleanup(best)
    if cand is not None and time.time() < t_end + 10:
        vv = test(cand)
        if vv is not None:
            best, best_v = cand, vv
    best.setdefault("meta", {})["shrink_runs"] = runs[0]
    return best, best_v


def cleanup(scn):
    cfg = scn.get("config")
    if not isinstance(cfg, dict) or not isinstance(cfg.get("simulation"), dict):
        return None
    sim = cfg["simulation"]
    used = set()
    roots = list(sim.get("markets", [])) + list(sim.get("agents", []))
    for s_ in sim.get("sessions", []):
        if isinstance(s_, dict):
            roots += list(s_.get("events", []) or [])
    stack = [r for r in roots if isinstance(r, str)]
    while stack:
        k = stack.pop()
        if k in used or k not in cfg:
            continue
        used.add(k)
        v = cfg[k]
        if isinstance(v, dict) and isinstance(v.get("extends"), str):
            stack.append(v["extends"])
    out = copy.deepcopy(scn)
    changed = False
    for k in list(out["config"].keys()):
        if k != "simulation" and k not in used:
            del out["config"][k]
            changed = True
    if isinstance(out.get("scripts"), dict):
        for name in list(out["scripts"].keys()):
            if not out["scripts"][name]:
                del out["scripts"][name]
                changed = True
    if isinstance(out.get("probes"), dict):
        for name in list(out["probes"].keys()):
            if name not in used:
                del out["probes"][name]
                changed = True
    return out if changed else None
