"""Import pams from the working tree under test (VERIF_REPO, default /repo) and nothing else.

No real clock, no global RNG and no hash-order dependent container is used on any path that
influences a simulated run; this module only fixes *which* pams is imported.
"""
import os
import sys
import warnings

REPO = os.path.realpath(os.environ.get("VERIF_REPO", "/repo"))
VERIF = os.path.dirname(os.path.dirname(os.path.abspath(__file__)))

sys.dont_write_bytecode = True
if sys.path[:1] != [REPO]:
    sys.path.insert(0, REPO)
os.environ.setdefault("PAMS_VERIF", "1")  # guard name; pams has no guarded hooks (none needed)

with warnings.catch_warnings():
    warnings.simplefilter("ignore")
    import pams  # noqa: E402

_loc = os.path.realpath(os.path.dirname(os.path.dirname(pams.__file__)))
if _loc != REPO:
    raise RuntimeError(f"pams imported from {_loc}, expected {REPO}")

warnings.filterwarnings("ignore")


def assert_repo() -> str:
    return _loc
