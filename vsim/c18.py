"""C18: configuration expansion.  Generator of configs written through inheritance, counts, ranges,
prefixes, JsonRandom specs, legacy keys and user-registered classes; reference expansion; hostile
configs that must be rejected in bounded time.
"""
import copy
import math
import random
from typing import Any, Dict, List, Optional, Tuple

from . import env  # noqa: F401
from .monitor import Plugin

GROUP_KEYS = ("numMarkets", "numAgents", "from", "to", "prefix", "extends")


# ---------------------------------------------------------------------- reference expansion
def ref_resolve(cfg: Dict[str, Any], name: str, excludes: Tuple[str, ...]) -> Dict[str, Any]:
    """own keys, then for each remaining key the nearest ancestor defining it, skipping excludes."""
    out = {k: v for k, v in cfg[name].items() if k != "extends"}
    seen = [name]
    cur = cfg[name]
    while "extends" in cur:
        par = cur["extends"]
        if par not in cfg:
            raise ValueError("missing parent")
        if par in seen:
            raise ValueError("cycle")
        seen.append(par)
        cur = cfg[par]
        for k, v in cur.items():
            if k == "extends" or k in excludes:
                continue
            if k not in out:
                out[k] = v
    return out


def group_expansion(name: str, st: Dict[str, Any], count_key: str) -> Tuple[List[str], Dict[str, Any]]:
    """entity names of a group and the settings every entity is built with."""
    if "from" in st or "to" in st:
        lo, hi = int(st["from"]), int(st["to"])
        idx = list(range(lo, hi + 1))
    elif count_key in st:
        idx = list(range(int(st[count_key])))
    else:
        idx = [0]
    n = len(idx)
    rest = {k: v for k, v in st.items() if k not in (count_key, "from", "to", "prefix")}
    return idx, rest


def in_support(spec: Any, v: float) -> bool:
    if isinstance(spec, list):
        a, b = float(spec[0]), float(spec[1])
        return min(a, b) <= v < max(a, b) or (a == b and v == a)
    if isinstance(spec, dict):
        if "const" in spec:
            return v == float(spec["const"][0])
        if "uniform" in spec:
            a, b = float(spec["uniform"][0]), float(spec["uniform"][1])
            return min(a, b) <= v < max(a, b) or (a == b and v == a)
        if "normal" in spec:
            return math.isfinite(v)
        if "expon" in spec:
            return v >= 0 and math.isfinite(v)
        return False
    return v == float(spec)


# ---------------------------------------------------------------------- generator
def split_into_chain(r: random.Random, cfg: Dict[str, Any], name: str, eff: Dict[str, Any], excludes: Tuple[str, ...],
                     own_only: Tuple[str, ...], tag: str, shared_parent: Optional[str] = None) -> None:
    """writes `eff` as cfg[name] extending a chain of 0-4 ancestors; ancestors also carry overridden
    (wrong) values and non-inheritable keys that must be skipped."""
    depth = r.choice([0, 0, 1, 2, 3, 5])
    if r.random() < 0.004:
        depth = r.choice([300, 1100, 2500])  # a valid chain deeper than the interpreter's recursion limit
    keys = [k for k in eff if k not in own_only]
    levels: List[Dict[str, Any]] = [dict() for _ in range(depth + 1)]
    for k in eff:
        if k in own_only:
            levels[0][k] = eff[k]
    for k in keys:
        lv = r.randrange(depth + 1)
        levels[lv][k] = eff[k]
        # farther ancestors may define the key too, with another value: the nearest one wins
        for deeper in range(lv + 1, depth + 1):
            if r.random() < 0.35:
                levels[deeper][k] = wrong_value(r, eff[k])
    names = [name] + [f"{tag}_{name}_p{i}" for i in range(1, depth + 1)]
    if shared_parent is not None and depth >= 1:
        names[-1] = shared_parent  # diamond through a repeated parent
        base = cfg.setdefault(shared_parent, {})
        for k, v in list(levels[-1].items()):
            if k in ("numMarkets", "numAgents", "prefix", "markets"):
                # would leak into the other groups extending the shared parent (count together with a
                # range is rightly rejected): keep these on the entry itself
                levels[0].setdefault(k, eff.get(k, v))
                del levels[-1][k]
                continue
            if k not in base:
                base[k] = v
            elif base[k] != v:
                # the shared parent already fixes another value: define the key nearer instead
                levels[0][k] = eff[k]
        levels[-1] = base
    for i in range(depth + 1):
        d = levels[i]
        if i < depth:
            d["extends"] = names[i + 1]
        if i >= 1:
            for ex in excludes:
                if r.random() < 0.4 and ex not in d:
                    d[ex] = r.choice([0, 1, 2, 7, "zz"]) if ex != "prefix" else "WRONG"
        cfg[names[i]] = d


def wrong_value(r: random.Random, v: Any) -> Any:
    if isinstance(v, bool):
        return not v
    if isinstance(v, (int, float)):
        return v + r.choice([1, 5, -1]) if not isinstance(v, float) else v * 1.5 + 1.0
    if isinstance(v, str):
        return v + "_x"
    if isinstance(v, list):
        return [wrong_value(r, x) for x in v] if v and not isinstance(v[0], str) else v + ["nope"]
    if isinstance(v, dict):
        return {"const": [123.0]}
    return v


def gen_config(r: random.Random, profile: str = "valid") -> Dict[str, Any]:
    cfg: Dict[str, Any] = {"simulation": {"markets": [], "agents": [], "sessions": []}}
    expect: Dict[str, Any] = {}
    # ---- market groups
    n_groups = r.randint(1, 3)
    market_groups = []
    for g in range(n_groups):
        name = f"MG{g}"
        eff: Dict[str, Any] = {"class": r.choice(["TapMarket", "TapMarket", "Market"]), "tickSize": r.choice([1.0, 0.5, 0.01]),
                               r.choice(["marketPrice", "fundamentalPrice"]): float(r.choice([100, 300, 1000])),
                               "fundamentalDrift": r.choice([0.0, 0.001]), "fundamentalVolatility": r.choice([0.0, 0.01]),
                               "outstandingShares": r.choice([100, 2000])}
        for k_ in ("fundamentalDrift", "fundamentalVolatility"):
            if eff[k_] == 0.0 and r.random() < 0.6:
                del eff[k_]  # the documented default applies
        mode = r.choice(["one", "count", "count", "range", "range"])
        if mode == "count":
            eff["numMarkets"] = r.choice([1, 2, 3, 5]) if r.random() < 0.97 else r.choice([17, 40, 70])
        elif mode == "range":
            lo = r.choice([0, 0, 1, 3, 10, -2, -6, -1])
            eff["from"] = lo
            eff["to"] = lo + r.choice([0, 1, 2, 4])
        if r.random() < 0.35:
            eff["prefix"] = r.choice([f"mk{g}_", f"X{g}-", f"q{g}"])
        split_into_chain(r, cfg, name, eff, ("from", "to"), ("from", "to"), "m",
                         shared_parent="SHARED_M" if r.random() < 0.3 else None)
        cfg["simulation"]["markets"].append(name)
        market_groups.append(name)
    # ---- agent groups
    n_ag = r.randint(1, 3)
    for g in range(n_ag):
        name = f"AG{g}"
        cls = r.choice(["ScriptedAgent", "ScriptedAgent", "ScriptedHFT", "FCNAgent", "ProbeFCN"])
        eff = {"class": cls, "markets": r.sample(market_groups, r.randint(1, len(market_groups))),
               "cashAmount": r.choice([10000, [100, 200], {"uniform": [5, 6]}, {"const": [77.5]}, {"normal": [1000, 10]}, {"expon": [50]}]),
               "assetVolume": r.choice([50, [10, 20], {"const": [3]}, {"uniform": [0, 100]}, {"expon": [20]}])}
        if "FCN" in cls:
            eff.update({"fundamentalWeight": r.choice([{"expon": [1.0]}, 1.0, [0.5, 1.5]]), "chartWeight": r.choice([{"expon": [0.2]}, 0.0, {"const": [0.3]}]),
                        "noiseWeight": r.choice([{"expon": [1.0]}, [0.1, 0.2]]), "noiseScale": r.choice([0.001, [0.0001, 0.01]]),
                        "timeWindowSize": r.choice([[100, 200], 5, {"uniform": [3, 9]}]), "orderMargin": r.choice([[0.0, 0.1], 0.05])})
        mode = r.choice(["one", "count", "count", "range", "range"])
        big = r.random() < 0.06  # populations beyond 256 / 1024 entities
        if mode == "count":
            eff["numAgents"] = r.choice([0, 1, 2, 3, 6]) if not big else r.choice([257, 300, 520, 1100])
        elif mode == "range":
            lo = r.choice([0, 0, 2, 5, -3, -1, -10])
            eff["from"] = lo
            eff["to"] = lo + (r.choice([0, 1, 2, 3]) if not big else r.choice([256, 299, 700]))
        if r.random() < 0.35:
            eff["prefix"] = r.choice([f"ag{g}_", f"Z{g}-"])
        split_into_chain(r, cfg, name, eff, ("from", "to"), ("from", "to"), "a",
                         shared_parent="SHARED_A" if r.random() < 0.3 else None)
        cfg["simulation"]["agents"].append(name)
    # ---- groups that extend another *instantiated* group, listed before or after it
    for lst, count_key, tag in ((cfg["simulation"]["markets"], "numMarkets", "DM"), (cfg["simulation"]["agents"], "numAgents", "DA")):
        if r.random() < 0.2:
            par = r.choice(lst)
            try:
                pst = ref_resolve(cfg, par, ("from", "to"))
            except Exception:
                continue
            d: Dict[str, Any] = {"extends": par, "prefix": f"{tag.lower()}_"}
            if count_key in pst:
                if r.random() < 0.6:
                    d[count_key] = r.choice([1, 2, 4])
            else:
                u = r.random()
                if u < 0.5:
                    lo = r.choice([0, 2])
                    d["from"], d["to"] = lo, lo + r.choice([0, 1, 3])
                elif u < 0.7:
                    d[count_key] = r.choice([1, 3])
            if r.random() < 0.4 and tag == "DA":
                d["cashAmount"] = 4321
            cfg[tag] = d
            lst.insert(r.randrange(len(lst) + 1), tag)
            if tag == "DM":
                market_groups.append(tag)
    # ---- sessions (legacy spellings now and then)
    for s in range(r.randint(1, 3)):
        ses: Dict[str, Any] = {"sessionName": r.choice([s, f"ses{s}"]), "iterationSteps": r.randint(1, 4),
                               "withOrderPlacement": r.random() < 0.8, "withOrderExecution": r.random() < 0.7, "withPrint": False}
        if r.random() < 0.6:
            ses["maxNormalOrders"] = r.randint(0, 5)
        u = r.random()
        if u < 0.35:
            ses["maxHighFrequencyOrders"] = r.randint(0, 5)
        elif u < 0.6:
            ses["maxHifreqOrders"] = r.randint(0, 5)
        u = r.random()
        if u < 0.35:
            ses["highFrequencySubmitRate"] = r.choice([0.0, 0.25, 1.0])
        elif u < 0.6:
            ses["hifreqSubmitRate"] = r.choice([0.0, 0.25, 0.5])
        cfg["simulation"]["sessions"].append(ses)
    # ---- events through inheritance (non-inheritable: numMarkets, from, to, prefix)
    first_market_group = market_groups[0]
    if r.random() < 0.6:
        for k in range(r.randint(1, 2)):
            name = f"EVC{k}"
            eff = {"class": "ProbeEvent", "someParam": r.choice([1, 2.5, "abc"]), "enabled": r.random() < 0.8}
            split_into_chain(r, cfg, name, eff, ("numMarkets", "from", "to", "prefix"), (), "e")
            cfg["simulation"]["sessions"][r.randrange(len(cfg["simulation"]["sessions"]))].setdefault("events", []).append(name)
    scn = {"format": 1, "driver": "A", "runner_seed": r.randrange(2 ** 31), "config": cfg, "scripts": {}, "probes": {},
           "knobs": {}, "setup_only": r.random() < 0.8, "c18": True, "taps": False}
    if profile == "hostile":
        make_hostile(r, scn)
    elif r.random() < 0.04:
        # the first market group names a class that is registered only after a first, refused set-up
        g0 = cfg["simulation"]["markets"][0]
        try:
            if ref_resolve(cfg, g0, ("from", "to")).get("class") == "TapMarket":
                _set_effective(cfg, g0, "class", "LateMarket")
                scn["late_class"] = True
        except Exception:
            pass
    return scn


def make_hostile(r: random.Random, scn: Dict[str, Any]) -> None:
    cfg = scn["config"]
    kind = r.choice(["cycle", "cycle", "missing_parent", "class_missing", "class_ambiguous", "from_without_to",
                     "count_and_range", "bad_dist", "no_ticksize", "group_twice", "no_class", "missing_group",
                     "dup_component", "component_without_shares", "dup_hook", "bad_session",
                     "market_class_not_market", "agent_class_not_agent", "structure", "bad_fundamental", "bad_corr",
                     "bad_event"])
    scn["setup_only"] = True
    mg = cfg["simulation"]["markets"]
    ag = cfg["simulation"]["agents"]
    tgt = r.choice(mg + ag)
    errs = ["ValueError"]
    if kind == "cycle":
        L = r.randint(1, 4)
        # find the end of the chain of tgt and close a loop of length L there (or a self loop)
        cur = tgt
        chain = [cur]
        while "extends" in cfg[cur]:
            cur = cfg[cur]["extends"]
            chain.append(cur)
        if L == 1:
            cfg[chain[-1]]["extends"] = chain[-1]
        else:
            extra = [f"cyc{i}" for i in range(L - 1)]
            prev = chain[-1]
            for e in extra:
                cfg[prev]["extends"] = e
                cfg[e] = {"zzz": 1}
                prev = e
            cfg[prev]["extends"] = r.choice(chain + extra[:-1]) if r.random() < 0.7 else chain[-1]
    elif kind == "missing_parent":
        cur = tgt
        while "extends" in cfg[cur]:
            cur = cfg[cur]["extends"]
        cfg[cur]["extends"] = "NO_SUCH_ENTRY"
    elif kind == "class_missing":
        _set_effective(cfg, tgt, "class", "NoSuchClassAnywhere")
        errs = ["AttributeError"]
    elif kind == "class_ambiguous":
        # a user-registered class with the name of a built-in one
        scn["register_clash"] = r.choice(["Market", "FCNAgent"])
        _set_effective(cfg, tgt, "class", scn["register_clash"])
        errs = ["AttributeError"]
    elif kind == "from_without_to":
        _set_own(cfg, tgt, {"from": 0})
        _del_own(cfg, tgt, ["to", "numMarkets", "numAgents"])
        _strip_effective(cfg, tgt, ["numMarkets", "numAgents"])
    elif kind == "count_and_range":
        _set_own(cfg, tgt, {"from": 0, "to": 1, "numMarkets" if tgt in mg else "numAgents": 2})
    elif kind == "bad_dist":
        # the distribution spec is only evaluated when an agent of the group is actually built
        nonempty = []
        for g in ag:
            try:
                st_ = ref_resolve(cfg, g, ("from", "to"))
                if len(group_expansion(g, st_, "numAgents")[0]) >= 1:
                    nonempty.append(g)
            except Exception:
                pass
        if not nonempty:
            cfg[ag[0]]["numAgents"] = 1
            cfg[ag[0]].pop("from", None)
            cfg[ag[0]].pop("to", None)
            nonempty = [ag[0]]
        t = r.choice(nonempty)
        _set_effective(cfg, t, "cashAmount", r.choice([{"uniform": [1]}, {"unknown": [1]}, {"const": 1}, [1, 2, 3],
                                                        {"const": [1], "uniform": [0, 1]}, {"normal": [0]}, {"expon": [1, 2]}]))
    elif kind == "no_ticksize":
        t = r.choice(mg)
        _strip_effective(cfg, t, ["tickSize"])
    elif kind == "group_twice":
        # listing a group twice is only an error when it creates at least one entity (duplicate names)
        cands = list(mg)
        for g in ag:
            try:
                if len(group_expansion(g, ref_resolve(cfg, g, ("from", "to")), "numAgents")[0]) >= 1:
                    cands.append(g)
            except Exception:
                pass
        t = r.choice(cands)
        (cfg["simulation"]["markets"] if t in mg else cfg["simulation"]["agents"]).append(t)
    elif kind == "no_class":
        _strip_effective(cfg, tgt, ["class"])
    elif kind == "missing_group":
        (cfg["simulation"]["markets"] if r.random() < 0.5 else cfg["simulation"]["agents"]).append("GROUP_NOT_DEFINED")
    elif kind in ("dup_component", "component_without_shares"):
        # add an index market over concrete market names of the first group
        g = mg[0]
        st = ref_resolve(cfg, g, ("from", "to"))
        idx, _ = group_expansion(g, st, "numMarkets")
        names = expected_names(g, st, idx)
        comps = [names[0], names[0]] if kind == "dup_component" else [names[0]]
        if kind == "component_without_shares":
            _strip_effective(cfg, g, ["outstandingShares"])
            errs = ["AssertionError", "ValueError"]
        cfg["IDXH"] = {"class": "TapIndexMarket", "tickSize": 1.0, "marketPrice": 100.0, "markets": comps}
        cfg["simulation"]["markets"].append("IDXH")
    elif kind == "dup_hook":
        cfg["DUPH"] = {"class": "ProbeEvent"}
        scn["probes"]["DUPH"] = {"hooks": [{"kind": "order", "before": True, "times": None},
                                           {"kind": "market", "before": False, "times": [0, 1]}], "dup_hook": r.randint(1, 2)}
        cfg["simulation"]["sessions"][0].setdefault("events", []).append("DUPH")
    elif kind == "market_class_not_market":
        _set_effective(cfg, r.choice(mg), "class", "FCNAgent")
    elif kind == "agent_class_not_agent":
        _set_effective(cfg, r.choice(ag), "class", "Market")
    elif kind == "structure":
        v = r.random()
        sim = cfg["simulation"]
        if v < 0.15:
            del scn["config"]["simulation"]
        elif v < 0.3:
            del sim["markets"]
        elif v < 0.45:
            sim["markets"] = mg + [7]
        elif v < 0.6:
            sim["agents"] = "AG0"
        elif v < 0.75:
            sim["sessions"] = {"sessionName": 0}
        elif v < 0.9:
            del sim["sessions"][0]["sessionName"]
        else:
            t = r.choice(ag)
            _strip_effective(cfg, t, ["markets"])
    elif kind == "bad_fundamental":
        t = r.choice(mg)
        if r.random() < 0.5:
            _set_effective(cfg, t, "fundamentalVolatility", -0.01)
        else:
            _strip_effective(cfg, t, ["marketPrice", "fundamentalPrice"])
            _set_effective(cfg, t, "fundamentalPrice", r.choice([0.0, -5.0]))
    elif kind == "bad_corr":
        g = mg[0]
        st = ref_resolve(cfg, g, ("from", "to"))
        idx, _ = group_expansion(g, st, "numMarkets")
        names = expected_names(g, st, idx)
        v = r.random()
        if v < 0.4:
            cfg["simulation"]["fundamentalCorrelations"] = {"pairwise": [[names[0], names[-1]]]}
        elif v < 0.7:
            _set_effective(cfg, g, "fundamentalVolatility", 0.0)
            other = names[-1] if len(names) > 1 else names[0]
            cfg["simulation"]["fundamentalCorrelations"] = {"pairwise": [[names[0], other, 0.5]]}
            if len(names) == 1:
                errs = ["ValueError"]
        else:
            cfg["simulation"]["fundamentalCorrelations"] = {"matrix": []}
            errs = ["NotImplementedError"]
    elif kind == "bad_event":
        g = mg[0]
        st = ref_resolve(cfg, g, ("from", "to"))
        idx, _ = group_expansion(g, st, "numMarkets")
        tgt_name = expected_names(g, st, idx)[0]
        v = r.random()
        if v < 0.25:
            cfg["BADE"] = {"class": "FundamentalPriceShock", "triggerTime": 0, "priceChangeRate": 0.1}
        elif v < 0.5:
            cfg["BADE"] = {"class": "OrderMistakeShock", "target": tgt_name, "triggerTime": 0, "priceChangeRate": 1, "orderVolume": 1, "orderTimeLength": 1}
        elif v < 0.75:
            cfg["BADE"] = {"class": "PriceLimitRule", "targetMarkets": tgt_name, "triggerChangeRate": 0.1}
        else:
            cfg["BADE"] = {"class": "TradingHaltRule", "targetMarkets": ["NO_SUCH_MARKET"], "triggerChangeRate": 0.1, "haltingTimeLength": 2}
        cfg["simulation"]["sessions"][0].setdefault("events", []).append("BADE")
    elif kind == "bad_session":
        s = cfg["simulation"]["sessions"][0]
        v = r.random()
        if v < 0.25:
            del s["iterationSteps"]
        elif v < 0.5:
            s["withOrderPlacement"] = "yes"
        elif v < 0.75:
            s["maxHighFrequencyOrders"] = 1
            s["maxHifreqOrders"] = 1
        else:
            s["highFrequencySubmitRate"] = 1.0
            s["hifreqSubmitRate"] = 1.0
    scn["expect_setup_error"] = {"kind": kind, "types": errs}


def _chain(cfg, name):
    out = [name]
    cur = name
    while "extends" in cfg[cur] and cfg[cur]["extends"] in cfg and cfg[cur]["extends"] not in out:
        cur = cfg[cur]["extends"]
        out.append(cur)
    return out


def _set_effective(cfg, name, key, val):
    cfg[name][key] = val


def _set_own(cfg, name, d):
    cfg[name].update(d)


def _del_own(cfg, name, keys):
    for k in keys:
        cfg[name].pop(k, None)


def _strip_effective(cfg, name, keys):
    for n in _chain(cfg, name):
        for k in keys:
            cfg[n].pop(k, None)


def expected_names(group: str, st: Dict[str, Any], idx: List[int]) -> List[str]:
    n = len(idx)
    if "prefix" in st:
        prefix = st["prefix"]
    else:
        prefix = group + ("-" if n > 1 else "")
    return [prefix + (str(i) if n != 1 else "") for i in idx]


# ---------------------------------------------------------------------- oracle
class ConfigPlugin(Plugin):
    def attach(self, mon):
        cfg = mon.ext["cfg_pristine"]
        sim = mon.sim
        built = mon.ext.get("built_settings", {})
        # ---- markets
        want_ids = 0
        group_market_ids: Dict[str, List[int]] = {}
        all_names = []
        for g in cfg["simulation"]["markets"]:
            st = ref_resolve(cfg, g, ("from", "to"))
            idx, rest = group_expansion(g, st, "numMarkets")
            got = sim.markets_group_name2market.get(g, [])
            if len(got) != len(idx):
                mon.viol("C18", "group_size", {"group": g, "got": len(got), "want": len(idx), "settings": {k: st.get(k) for k in ("numMarkets", "from", "to")}})
                continue
            ids = [m.market_id for m in got]
            if ids != list(range(want_ids, want_ids + len(idx))):
                mon.viol("C18", "ids_not_consecutive", {"group": g, "got": ids, "want_from": want_ids})
            want_ids += len(idx)
            group_market_ids[g] = ids
            all_names.extend(m.name for m in got)
            if "prefix" in st or len(idx) > 1:
                # naming is only fixed by the statement up to uniqueness; the documented scheme is checked when unambiguous
                wn = expected_names(g, st, idx)
                if len(idx) >= 3 or "numMarkets" in st:
                    if [m.name for m in got] != wn:
                        mon.viol("C18", "names", {"group": g, "got": [m.name for m in got], "want": wn})
            for m in got:
                if type(m).__name__ != st["class"]:
                    mon.viol("C18", "class_resolution", {"group": g, "got": type(m).__name__, "want": st["class"]})
                b = built.get(m.name)
                if b is not None and b != rest:
                    diff = {k: (b.get(k), rest.get(k)) for k in set(b) | set(rest) if b.get(k) != rest.get(k)}
                    mon.viol("C18", "effective_settings", {"entity": m.name, "group": g, "differences(got,want)": repr(diff)[:400]})
                if m.tick_size != st["tickSize"]:
                    mon.viol("C18", "effective_settings", {"entity": m.name, "key": "tickSize", "got": m.tick_size, "want": st["tickSize"]})
                fp = float(st["fundamentalPrice"]) if "fundamentalPrice" in st else float(st["marketPrice"])
                f = sim.fundamentals
                if m.market_id in f.initials:
                    if (f.initials[m.market_id], f.drifts[m.market_id], f.volatilities[m.market_id]) != (
                            fp, float(st.get("fundamentalDrift", 0.0)), float(st.get("fundamentalVolatility", 0.0))):
                        mon.viol("C18", "effective_settings", {"entity": m.name, "key": "fundamentals",
                                                               "got": [f.initials[m.market_id], f.drifts[m.market_id], f.volatilities[m.market_id]]})
                mon.stat("c18_entities")
        if len(set(all_names)) != len(all_names):
            mon.viol("C18", "names_not_unique", {"names": all_names})
        # ---- agents
        want_ids = 0
        all_names = []
        for g in cfg["simulation"]["agents"]:
            st = ref_resolve(cfg, g, ("from", "to"))
            idx, rest = group_expansion(g, st, "numAgents")
            got = sim.agents_group_name2agent.get(g, [])
            if len(got) != len(idx):
                mon.viol("C18", "group_size", {"group": g, "got": len(got), "want": len(idx), "settings": {k: st.get(k) for k in ("numAgents", "from", "to")}})
                continue
            ids = [a.agent_id for a in got]
            if ids != list(range(want_ids, want_ids + len(idx))):
                mon.viol("C18", "ids_not_consecutive", {"group": g, "got": ids, "want_from": want_ids})
            want_ids += len(idx)
            all_names.extend(a.name for a in got)
            if len(idx) >= 3 or "numAgents" in st:
                wn = expected_names(g, st, idx)
                if [a.name for a in got] != wn:
                    mon.viol("C18", "names", {"group": g, "got": [a.name for a in got], "want": wn})
            acc_want = sorted({i for mg_ in st["markets"] for i in group_market_ids.get(mg_, [])})
            for a in got:
                if type(a).__name__ != st["class"]:
                    mon.viol("C18", "class_resolution", {"group": g, "got": type(a).__name__, "want": st["class"]})
                acc_got = sorted(m.market_id for m in sim.markets if a.is_market_accessible(m.market_id))
                if acc_got != acc_want:
                    mon.viol("C18", "accessible_markets", {"agent": a.name, "got": acc_got, "want": acc_want, "listed": st["markets"]})
                b = built.get(a.name)
                if b is not None and b != rest:
                    diff = {k: (b.get(k), rest.get(k)) for k in set(b) | set(rest) if b.get(k) != rest.get(k)}
                    mon.viol("C18", "effective_settings", {"entity": a.name, "group": g, "differences(got,want)": repr(diff)[:400]})
                if not in_support(st["cashAmount"], float(a.get_cash_amount())):
                    mon.viol("C18", "random_value_outside_support", {"agent": a.name, "key": "cashAmount", "spec": st["cashAmount"], "got": a.get_cash_amount()})
                for mid in acc_got:
                    v = a.get_asset_volume(mid)
                    spec = st["assetVolume"]
                    ok = isinstance(v, int)
                    if isinstance(spec, list):
                        ok = ok and math.floor(min(spec)) <= v <= max(spec)
                    elif isinstance(spec, dict) and "const" in spec:
                        ok = ok and v == int(spec["const"][0])
                    elif isinstance(spec, dict) and "uniform" in spec:
                        ok = ok and math.floor(min(spec["uniform"])) <= v <= max(spec["uniform"])
                    elif isinstance(spec, dict) and "expon" in spec:
                        ok = ok and v >= 0
                    elif not isinstance(spec, dict):
                        ok = ok and v == int(spec)
                    if not ok:
                        mon.viol("C18", "random_value_outside_support", {"agent": a.name, "key": "assetVolume", "spec": spec, "got": v})
                if "FCN" in st["class"]:
                    for key, attr, isint in (("fundamentalWeight", "fundamental_weight", False), ("chartWeight", "chart_weight", False),
                                             ("noiseWeight", "noise_weight", False), ("noiseScale", "noise_scale", False),
                                             ("timeWindowSize", "time_window_size", True), ("orderMargin", "order_margin", False)):
                        v = getattr(a, attr)
                        spec = st[key]
                        if isint:
                            ok = isinstance(v, int) and (in_support(spec, float(v)) or in_support(spec, float(v) + 0.999999))
                        else:
                            ok = in_support(spec, float(v))
                        if not ok:
                            mon.viol("C18", "random_value_outside_support", {"agent": a.name, "key": key, "spec": spec, "got": v})
                    mon.probe("c18_fcn_params_checked")
                mon.stat("c18_entities")
        if len(set(all_names)) != len(all_names):
            mon.viol("C18", "names_not_unique", {"names": all_names})
        # ---- sessions, both spellings
        start = 0
        for i, s in enumerate(cfg["simulation"]["sessions"]):
            ses = sim.sessions[i]
            want = {"iteration_steps": s["iterationSteps"], "with_order_placement": s["withOrderPlacement"],
                    "with_order_execution": s["withOrderExecution"], "session_start_time": start,
                    "max_normal_orders": s.get("maxNormalOrders", 1),
                    "max_high_frequency_orders": s.get("maxHighFrequencyOrders", s.get("maxHifreqOrders", 1)),
                    "high_frequency_submission_rate": s.get("highFrequencySubmitRate", s.get("hifreqSubmitRate", 1.0))}
            start += s["iterationSteps"]
            for k, v in want.items():
                if getattr(ses, k) != v:
                    legacy = ("maxHifreqOrders" in s and k == "max_high_frequency_orders") or ("hifreqSubmitRate" in s)
                    mon.viol("C18", "legacy_key_mapping" if legacy and k in ("max_high_frequency_orders", "high_frequency_submission_rate") else "session_attribute",
                             {"session": i, "attribute": k, "got": getattr(ses, k), "want": v, "given": {kk: s[kk] for kk in s if kk not in ("events",)}})
            if "maxHifreqOrders" in s or "hifreqSubmitRate" in s:
                mon.probe("c18_legacy_key")
            if ses.name != str(s["sessionName"]):
                mon.viol("C18", "session_attribute", {"session": i, "attribute": "name", "got": ses.name})
        # ---- events
        for i, s in enumerate(cfg["simulation"]["sessions"]):
            for e in s.get("events", []):
                if e.startswith("__tap"):
                    continue
                st = ref_resolve(cfg, e, ("numMarkets", "from", "to", "prefix"))
                b = built.get("event:" + e)
                if b is not None and b != st:
                    diff = {k: (b.get(k), st.get(k)) for k in set(b) | set(st) if b.get(k) != st.get(k)}
                    mon.viol("C18", "effective_settings", {"entity": e, "differences(got,want)": repr(diff)[:400]})
                mon.probe("c18_event_checked")

        # ---- resolving once more on the dictionary the runner was given yields what the user wrote: the
        # expansion of one entry may not eat keys of another (a second runner on the same settings, or a group
        # listed after a group that extends it, would see something else)
        from pams.utils.json_extends import json_extends
        live = mon.ext.get("cfg")
        if live is not None:
            todo = [(g, ("from", "to")) for g in cfg["simulation"]["markets"] + cfg["simulation"]["agents"]]
            for s in cfg["simulation"]["sessions"]:
                todo += [(e, ("numMarkets", "from", "to", "prefix")) for e in s.get("events", []) if not e.startswith("__tap")]
            for g, excl in todo:
                if g not in live:
                    continue
                try:
                    got = json_extends(whole_json=live, parent_name=g, target_json=live[g], excludes_fields=list(excl))
                    want = ref_resolve(cfg, g, excl)
                except Exception:
                    continue
                if got != want:
                    diff = {k: (got.get(k), want.get(k)) for k in set(got) | set(want) if got.get(k) != want.get(k)}
                    mon.viol("C18", "resolution_changed_by_setup", {"entry": g, "differences(got,want)": repr(diff)[:400]})
            for i, s_ in enumerate(cfg["simulation"]["sessions"]):
                if i < len(live["simulation"]["sessions"]) and live["simulation"]["sessions"][i] != s_:
                    ls = live["simulation"]["sessions"][i]
                    diff = {k: (ls.get(k), s_.get(k)) for k in set(ls) | set(s_) if ls.get(k) != s_.get(k)}
                    mon.viol("C18", "resolution_changed_by_setup", {"entry": f"session {i}", "differences(got,want)": repr(diff)[:400]})
            mon.probe("c18_resolved_again_after_setup")

    def setup_failed(self, mon, err):
        pass
