"""Seeded generator of driver-F histories (fundamentals under a simulated clock)."""
import math
import random
from typing import Any, Dict, List


def gram_corr(r: random.Random, k: int) -> List[List[float]]:
    """random positive-definite correlation matrix from a Gram matrix."""
    d = k + r.randint(0, 2)
    vecs = [[r.gauss(0, 1) for _ in range(d)] for _ in range(k)]
    mix = r.choice([0.0, 0.3, 1.0, 3.0])
    base = [r.gauss(0, 1) for _ in range(d)]
    vecs = [[x + mix * b for x, b in zip(v, base)] for v in vecs]
    G = [[sum(a * b for a, b in zip(vecs[i], vecs[j])) for j in range(k)] for i in range(k)]
    C = [[G[i][j] / math.sqrt(G[i][i] * G[j][j]) for j in range(k)] for i in range(k)]
    return C


def gen_fund(r: random.Random, profile: str = "scripted") -> Dict[str, Any]:
    if profile == "scripted" and r.random() < 0.08:
        return gen_direct(r)
    n = r.randint(1, 5)
    markets = []
    for i in range(n):
        vol = 0.0 if r.random() < 0.3 else r.choice([1e-4, 1e-3, 0.01, 0.03, 0.08, r.uniform(1e-4, 0.08)])
        markets.append({"initial": r.choice([0.5, 1.0, 100.0, 300.0, 5000.0, r.uniform(0.5, 5000)]),
                        "drift": r.choice([0.0, 0.0, 0.001, -0.001, 0.02, -0.02, r.uniform(-0.02, 0.02)]),
                        "vol": vol})
    volat = [i for i, m in enumerate(markets) if m["vol"] != 0.0]
    corr = []
    if len(volat) >= 2 and r.random() < 0.7:
        C = gram_corr(r, len(volat))
        for a in range(len(volat)):
            for b in range(a + 1, len(volat)):
                c = max(-0.95, min(0.95, round(C[a][b], 6)))
                if r.random() < 0.85:
                    corr.append([volat[a], volat[b], c])
        # keep only if still positive definite after rounding / dropping pairs (checked in the driver too)
        import numpy as np
        M = np.eye(len(volat))
        for a, b, c in corr:
            M[volat.index(a), volat.index(b)] = c
            M[volat.index(b), volat.index(a)] = c
        if np.linalg.eigvalsh(M).min() <= 0.05:
            corr = []
    chunk = r.choice([None, None, 2, 3, 5, 9])
    horizon = r.choice([20, 60, 150, 300, 600]) if chunk is None else r.choice([15, 40, 90])
    ops: List[Dict[str, Any]] = []
    t = 0
    p_change = r.choice([0.0, 0.1, 0.25, 0.5])
    while t < horizon:
        k = r.randint(1, max(1, horizon // 8))
        ops.append({"k": "advance", "n": k})
        t += k
        if r.random() < p_change:
            u = r.random()
            m = r.randrange(n)
            if u < 0.35:
                ops.append({"k": "shock", "m": m, "v": r.choice([0.5, 0.9, 1.1, 1.5, 1.0 + r.uniform(-0.5, 0.5)])})
            elif u < 0.55:
                ops.append({"k": "drift", "m": m, "v": r.choice([0.0, 0.01, -0.01, r.uniform(-0.02, 0.02), 0])})
            elif u < 0.75:
                ops.append({"k": "vol", "m": m, "v": r.choice([0.0, 0.001, 0.02, 0.08])})
            elif u < 0.9:
                ops.append({"k": "corr", "m": m, "m2": r.randrange(n), "v": r.choice([-0.6, -0.2, 0.3, 0.7, 0.0])})
            else:
                ops.append({"k": "uncorr", "m": m, "m2": r.randrange(n)})
            if r.random() < 0.3:
                # several changes at one time
                ops.append({"k": r.choice(["shock", "drift"]), "m": r.randrange(n), "v": r.choice([0.8, 1.2]) if ops[-1]["k"] == "shock" else 0.005})
                if ops[-1]["k"] == "drift":
                    ops[-1]["v"] = r.choice([0.005, -0.005])
                else:
                    ops[-1]["v"] = r.choice([0.8, 1.2])
        if r.random() < 0.2:
            ops.append({"k": "query", "times": [r.randrange(10 ** 6) for _ in range(3)]})
        if r.random() < 0.25:
            ops.append(gen_ahead(r))
        if r.random() < 0.06:
            ops.append({"k": "dup_add", "m": r.randrange(n), "start_at": r.choice([0, 0, 1, 5])})
    late = []
    if r.random() < 0.25:
        for _ in range(r.randint(1, 2)):
            late.append({"initial": r.choice([1.0, 100.0, 777.0]), "drift": r.choice([0.0, 0.001, -0.01]),
                         "start_at": r.choice([1, 2, 7, 50, 99, 100, 101, horizon // 2])})
    return {"format": 1, "driver": "F", "runner_seed": r.randrange(2 ** 31),
            "f": {"markets": markets, "corr": corr, "late": late}, "fops": ops,
            "knobs": {"generation_chunk": chunk, "storage_chunk": r.choice([None, 3, 7]) if chunk else None},
            "scripted_normal": profile == "scripted"}


def gen_direct(r: random.Random) -> Dict[str, Any]:
    """the Fundamentals object on its own: markets registered under arbitrary ids in arbitrary order."""
    import numpy as np
    n = r.randint(2, 4)
    markets = [{"initial": r.choice([100.0, 300.0, 1.0]), "drift": r.choice([0.0, 0.001, -0.002]),
                "vol": r.choice([0.0, 0.01, 0.015, 0.03]) if i else r.choice([0.01, 0.02])} for i in range(n)]
    if r.random() < 0.25:
        for m_ in markets:
            m_["drift"] = r.choice([0, 0, 1]) if r.random() < 0.2 else 0  # all drifts written as whole numbers
    ids = r.sample(range(0, 12), n)
    if r.random() < 0.3:
        ids.sort()
    volat = [i for i in range(n) if markets[i]["vol"] != 0]
    corr = []
    if len(volat) >= 2:
        C = gram_corr(r, len(volat))
        for a in range(len(volat)):
            for b in range(a + 1, len(volat)):
                if r.random() < 0.8:
                    corr.append([volat[a], volat[b], max(-0.9, min(0.9, round(C[a][b], 6)))])
        M = np.eye(len(volat))
        for a, b, c in corr:
            M[volat.index(a), volat.index(b)] = c
            M[volat.index(b), volat.index(a)] = c
        if np.linalg.eigvalsh(M).min() <= 0.05:
            corr = corr[:1] if abs(corr[0][2]) < 0.9 else []
    return {"format": 1, "driver": "F", "runner_seed": r.randrange(2 ** 31),
            "f": {"markets": markets, "corr": corr, "direct_ids": ids, "steps": r.choice([30, 60, 130]),
                  "readd": [r.randrange(n)] if r.random() < 0.25 else []},
            "fops": [], "knobs": {"generation_chunk": r.choice([None, None, 5, 9])}, "scripted_normal": True}


def gen_ahead(r: random.Random) -> Dict[str, Any]:
    """offsets (relative to the current time, negative = past) in ascending, descending or shuffled order."""
    u = r.random()
    if u < 0.3:
        a, b = sorted((r.randint(-6, 3), r.randint(1, r.choice([4, 12, 130]))))
        offs = list(range(a, b + 1))
        if r.random() < 0.6:
            offs.reverse()
        form = r.choice(["range", "list", "tuple"])
    else:
        offs = [r.randint(-10, r.choice([3, 8, 40, 150])) for _ in range(r.randint(1, 6))]
        v = r.random()
        if v < 0.3:
            offs.sort()
        elif v < 0.6:
            offs.sort(reverse=True)
        form = r.choice(["list", "tuple"])
    return {"k": "ahead", "offs": offs, "form": form}


def gen_moments(r: random.Random, profile: str = "moments") -> Dict[str, Any]:
    """long stationary histories for the supplementary 7-sigma moment check (real generator)."""
    n = r.randint(2, 4)
    markets = [{"initial": r.choice([100.0, 300.0]), "drift": r.choice([0.0, 0.0005, -0.0005]),
                "vol": r.choice([0.001, 0.01, 0.03])} for _ in range(n)]
    C = gram_corr(r, n)
    corr = [[a, b, max(-0.9, min(0.9, round(C[a][b], 4)))] for a in range(n) for b in range(a + 1, n)]
    import numpy as np
    M = np.eye(n)
    for a, b, c in corr:
        M[a, b] = M[b, a] = c
    if np.linalg.eigvalsh(M).min() <= 0.05:
        corr = [[0, 1, 0.5]]
    return {"format": 1, "driver": "F", "runner_seed": r.randrange(2 ** 31), "f": {"markets": markets, "corr": corr},
            "fops": [{"k": "advance", "n": 20000}, {"k": "moments"}], "knobs": {"generation_chunk": None, "storage_chunk": None},
            "scripted_normal": False}
