"""Online monitor: reference model kept in lock-step with the observed event stream plus the
oracles of DESIGN.md section 4.  It is called from the harness classes (taps) while the real pams
code runs; it only reads pams through public getters (plus the handful of attributes listed in
DESIGN.md 3.7) and never draws from a PRNG that pams uses.
"""
import math
from fractions import Fraction
from typing import Any, Dict, List, Optional, Tuple

from . import env  # noqa: F401
from .model import Ledger, MMarket, MOrder

from pams.index_market import IndexMarket  # noqa: E402
from pams.logs.base import CancelLog, ExecutionLog, ExpirationLog, OrderLog  # noqa: E402
from pams.order import LIMIT_ORDER, MARKET_ORDER  # noqa: E402

REL = 1e-9


def close(a: Optional[float], b: Optional[float], rel: float = REL, scale: float = 0.0) -> bool:
    if a is None or b is None:
        return a is None and b is None
    if a == b:
        return True
    if isinstance(a, float) and isinstance(b, float) and math.isnan(a) and math.isnan(b):
        return True
    return abs(a - b) <= rel * max(abs(a), abs(b), scale)


def is_pow2(x: float) -> bool:
    if x <= 0:
        return False
    m, _ = math.frexp(x)
    return m == 0.5


class Violation:
    __slots__ = ("prop", "kind", "seq", "t", "detail")

    def __init__(self, prop, kind, seq, t, detail):
        self.prop = prop
        self.kind = kind
        self.seq = seq
        self.t = t
        self.detail = detail

    def as_dict(self):
        return {"property": self.prop, "kind": self.kind, "event": self.seq, "time": self.t,
                "detail": self.detail}


class Monitor:
    """one per simulated run."""

    def __init__(self, on, driver: str = "A"):
        self.on = frozenset(on)
        self.driver = driver
        self.seq = 0
        self.trace: List[Tuple] = []  # compact event records (also the digest input)
        self.keep_trace = True
        self.violations: List[Violation] = []
        self._vkeys = set()
        self.sim = None
        self.markets: List[Any] = []
        self.mm: Dict[int, MMarket] = {}
        self.ledger = Ledger()
        self.agents: List[Any] = []
        self.stats: Dict[str, int] = {}
        self.probes: Dict[str, int] = {}
        self.now = -1
        self.started = False
        # current in-flight operation (set by the market wrappers)
        self.inflight: Optional[Dict[str, Any]] = None
        self.in_round: Optional[Dict[str, Any]] = None
        self.round_no = 0
        self.seen_logs: Dict[int, str] = {}  # id(log) -> channel first seen
        self.keepalive: List[Any] = []  # keeps log objects alive so id() stays unique
        self.obj2mo: Dict[int, MOrder] = {}
        self.book_sigs = set()
        self.consult_seqs = set()
        self.expect_abort: Optional[Dict[str, Any]] = None
        self.aborted = False
        self.sessions_cfg: List[Dict[str, Any]] = []
        self.cur_session = None
        self.cur_session_idx = -1
        self.cmp_budget = 4000
        self.cancel_objs: Dict[int, Any] = {}
        self.returned_by: Dict[int, int] = {}
        self.retain = True  # False when the run has no logger: nothing may keep log objects alive
        self.ext: Dict[str, Any] = {}  # per-property extension state (see oracles_*.py)
        self.plugins: List[Any] = []

    # ------------------------------------------------------------------ utilities
    def stat(self, k: str, n: int = 1) -> None:
        self.stats[k] = self.stats.get(k, 0) + n

    def probe(self, k: str, n: int = 1) -> None:
        self.probes[k] = self.probes.get(k, 0) + n

    def viol(self, prop: str, kind: str, detail: Any) -> None:
        key = (prop, kind)
        if key in self._vkeys:
            return
        self._vkeys.add(key)
        self.violations.append(Violation(prop, kind, self.seq, self.now, detail))

    def rec(self, *tup) -> None:
        self.seq += 1
        if self.keep_trace:
            self.trace.append(tup)

    # ------------------------------------------------------------------ attach
    def attach(self, simulator, sessions_cfg) -> None:
        """called after runner._setup(): read the built world through public attributes."""
        self.sim = simulator
        self.markets = list(simulator.markets)
        self.sessions_cfg = sessions_cfg
        for m in self.markets:
            p0 = m._market_prices[0] if getattr(m, "_market_prices", None) else None
            self.mm[m.market_id] = MMarket(m.market_id, m.name, m.tick_size, p0, isinstance(m, IndexMarket))
        self.agents = list(simulator.agents)
        for a in self.agents:
            shares = {}
            for mk in self.markets:
                if a.is_market_accessible(mk.market_id):
                    shares[mk.market_id] = a.get_asset_volume(mk.market_id)
            self.ledger.endow(a.agent_id, a.get_cash_amount(), shares)
        self.ledger.close_endowment()
        for p in self.plugins:
            p.attach(self)

    # ------------------------------------------------------------------ clock
    def pre_tick(self, market) -> None:
        mm = self.mm[market.market_id]
        mm.exp_this_tick = []
        self.inflight = {"k": "tick", "m": market.market_id}
        for p in self.plugins:
            p.pre_tick(self, market)

    def post_tick(self, market) -> None:
        """after Market._update_time returned (storage extended, prices carried)."""
        self.inflight = None
        mm = self.mm[market.market_id]
        prev_t = mm.time
        t = market.get_time()
        self.rec("T", market.market_id, t)
        if "C06" in self.on and t != prev_t + 1:
            self.viol("C06", "clock_step", {"market": mm.name, "from": prev_t, "to": t})
        mm.time = t
        if market.market_id == self.markets[0].market_id or t > self.now:
            self.now = max(self.now, t)
        # C04: every order due has expired exactly now; nothing else did
        if "C04" in self.on or "C10" in self.on or market.logger is None:
            due = [o for o in list(mm.buy.values()) + list(mm.sell.values())
                   if o.ttl is not None and o.placed_at + o.ttl < t]
            for o in due:
                book = market.buy_order_book if o.is_buy else market.sell_order_book
                still = any(x.order_id == o.oid for x in book.priority_queue)
                if still:
                    self.viol("C04", "expiry_missing", {"market": mm.name, "order": o.brief(), "now": t})
                elif market.logger is None:
                    # a run without a logger: the expiry cannot be reported; the model follows the book
                    self.stat("expiries_unlogged_run")
                    if o.obj is not None and "C04" in self.on and o.obj.volume != o.rem:
                        self.viol("C04", "order_object_volume", {"market": mm.name, "order": o.brief(), "obj_volume": o.obj.volume})
                else:  # it left the book, but no expiry record was written
                    self.viol("C10", "expiry_not_logged", {"market": mm.name, "order": o.brief(), "now": t})
                    self.viol("C04", "expiry_not_reported", {"market": mm.name, "order": o.brief(), "now": t})
                o.status = "expired"
                mm.drop(o)
        # price state at clock advance
        running = market.is_running
        if t == 0:
            mm.mp = market.get_market_price()
            mm.mid = market.get_mid_price()
            if "C08" in self.on:
                if mm.mid is not None:
                    self.viol("C08", "mid_t0", {"market": mm.name, "mid": mm.mid})
                if market.get_last_executed_price() is not None:
                    self.viol("C08", "last_t0", {"market": mm.name})
        else:
            mp = market.get_market_price()
            if "C08" in self.on:
                mid = market.get_mid_price()
                if not close(mid, mm.mid, 0.0):
                    self.viol("C08", "mid_not_carried", {"market": mm.name, "t": t, "got": mid, "want": mm.mid})
                last = market.get_last_executed_price()
                if not close(last, mm.last, 0.0):
                    self.viol("C08", "last_not_carried", {"market": mm.name, "t": t, "got": last, "want": mm.last})
                if not running:
                    if not close(mp, mm.mp, 0.0):
                        self.viol("C08", "price_moved_while_stopped_tick",
                                  {"market": mm.name, "t": t, "got": mp, "prev": mm.mp})
                elif mm.traded:
                    if not close(mp, mm.last, 0.0):
                        self.viol("C08", "price_not_last_trade_tick",
                                  {"market": mm.name, "t": t, "got": mp, "last": mm.last})
                else:
                    if not (close(mp, mm.mp, 0.0) or (mm.mid is not None and close(mp, mm.mid, 0.0))):
                        self.viol("C08", "price_tick_unexplained",
                                  {"market": mm.name, "t": t, "got": mp, "prev": mm.mp, "mid": mm.mid})
            mm.mp = mp
        for p in self.plugins:
            p.post_tick(self, market, mm, t)
        if t > 0 and t % (self.ext.get("storage_chunk_applied") or 100) == 0 and "C06" not in self.on:
            self.probe("storage_chunk_boundary_crossed")
        if "C08" in self.on or "C02" in self.on or "C04" in self.on:
            self.check_quotes(market, mm, "tick")
        if "C08" in self.on and 1 <= t <= 120 and not mm.diverged:
            self.check_vwap(market, mm)
            if t >= 1:
                self.check_counters(market, mm, t - 1)
            self.check_series_forms(market, mm, t)

    # ------------------------------------------------------------------ expiry record (mid clock advance: no getters!)
    def on_expiration_log(self, log: ExpirationLog) -> None:
        mm = self.mm.get(log.market_id)
        self.rec("X", log.market_id, log.order_id, log.time, log.volume, log.agent_id)
        self.stat("expiries")
        if mm is None:
            return
        o = mm.orders.get(log.order_id)
        if o is None:
            self.viol("C04", "expiry_unknown_order", {"market": mm.name, "order_id": log.order_id})
            return
        o.n_exp += 1
        if o.status != "live":
            self.viol("C04", "expiry_of_dead_order", {"market": mm.name, "order": o.brief(), "time": log.time})
            self.viol("C10", "expiry_record_without_expiry", {"market": mm.name, "order": o.brief(), "time": log.time})
            return
        # the first clock value past placed_at + ttl (a lifetime need not be a whole number of steps)
        if o.ttl is None or log.time != math.floor(o.placed_at + o.ttl) + 1:
            self.viol("C04", "expiry_wrong_time", {"market": mm.name, "order": o.brief(), "time": log.time})
        if log.volume != o.rem:
            self.viol("C04", "expiry_volume", {"market": mm.name, "order": o.brief(), "logged": log.volume})
        if o.filled > 0:
            self.probe("partial_fill_then_expiry")
        self.check_log_fields("X", log, o, mm)
        o.status = "expired"
        o.term_vol = log.volume
        o.term_kind = "expired"
        mm.drop(o)
        mm.exp_this_tick.append(o.oid)
        self.check_accounting(o, mm)

    # ------------------------------------------------------------------ order acceptance
    def pre_add(self, market, order) -> None:
        mm = self.mm[market.market_id]
        self.inflight = {
            "k": "add", "m": market.market_id, "obj": order,
            "price": order.price, "volume": order.volume, "is_buy": order.is_buy, "kind": order.kind,
            "ttl": order.ttl, "agent": order.agent_id, "omkt": order.market_id,
            "known": id(order) in self.obj2mo, "log": None,
            "depth": (mm.depth(True), mm.depth(False)),
            "n_orders": len(mm.orders),
        }

    def add_rejected(self, market, order, exc) -> None:
        """Market._add_order raised: the rejected object must leave no trace."""
        inf = self.inflight or {}
        self.inflight = None
        mm = self.mm[market.market_id]
        self.rec("R", "add", market.market_id, type(exc).__name__)
        self.stat("rejected_add")
        if "C04" in self.on:
            if inf.get("log") is not None:
                self.viol("C04", "rejected_but_logged", {"market": mm.name})
            self.check_depth(market, mm, "C04", "rejected_changed_book")

    def on_order_log(self, log: OrderLog) -> None:
        mm = self.mm.get(log.market_id)
        inf = self.inflight if (self.inflight and self.inflight.get("k") == "add") else None
        obj = inf["obj"] if inf else None
        self.rec("O", log.market_id, log.order_id, log.agent_id, log.is_buy, log.kind.name, log.price,
                 log.volume, log.ttl, log.time)
        self.stat("orders")
        if mm is None:
            return
        market = self.sim.id2market[log.market_id]
        if inf is not None:
            inf["log"] = log
        if log.order_id in mm.orders:
            self.viol("C04", "order_id_reused", {"market": mm.name, "order_id": log.order_id})
            return
        if "C04" in self.on:
            if log.order_id <= mm.next_oid_seen:
                self.viol("C04", "order_id_not_increasing", {"market": mm.name, "order_id": log.order_id})
            if obj is not None:
                if inf["known"]:
                    self.viol("C04", "object_accepted_twice", {"market": mm.name, "order_id": log.order_id})
                if inf["omkt"] != market.market_id:
                    self.viol("C04", "accepted_by_wrong_market", {"market": mm.name, "names": inf["omkt"]})
            if log.volume <= 0:
                self.viol("C04", "nonpositive_volume_accepted", {"market": mm.name, "volume": log.volume})
        mm.next_oid_seen = max(mm.next_oid_seen, log.order_id)
        is_mkt = log.kind == MARKET_ORDER
        o = MOrder(log.order_id, log.market_id, log.agent_id, log.is_buy, is_mkt, log.price, log.volume,
                   log.time, log.ttl, obj, self.seq)
        if inf is not None:
            o.sub_price = inf["price"]
        mm.add(o)
        if obj is not None:
            self.obj2mo[id(obj)] = o
        t = log.time
        if log.is_buy:
            mm.n_buy[t] = mm.n_buy.get(t, 0) + 1
        else:
            mm.n_sell[t] = mm.n_sell.get(t, 0) + 1
        if is_mkt:
            self.probe("market_order_accepted")
        if ("C06" in self.on or "C10" in self.on) and log.time != market.get_time():
            self.viol("C06", "order_time", {"market": mm.name, "log": log.time, "now": market.get_time()})
            self.viol("C10", "order_log_fields", {"market": mm.name, "time": log.time, "now": market.get_time()})
        # C19: rounding relation between the price handed to the market and the accepted price
        if "C19" in self.on and inf is not None and not is_mkt and inf["price"] is not None:
            self.check_rounding(mm, inf["price"], log.price, log.is_buy)
        if obj is not None and ("C10" in self.on or "C04" in self.on):
            ok = (obj.order_id == log.order_id and obj.placed_at == log.time and obj.price == log.price
                  and obj.volume == log.volume and obj.is_buy == log.is_buy and obj.kind == log.kind
                  and obj.ttl == log.ttl and obj.agent_id == log.agent_id and obj.market_id == log.market_id)
            if not ok:
                self.viol("C10", "order_log_fields", {"market": mm.name, "log": vars(log).__repr__(), "obj": repr(obj)})
        self.after_book_event(market, mm, "add")
        for p in self.plugins:
            p.on_order_log(self, log, o, mm, market, inf)

    def post_add(self, market, order, log) -> None:
        inf = self.inflight
        self.inflight = None
        if inf is not None and inf.get("log") is None:
            # the market accepted an order without telling the logger: keep the model in step
            if market.logger is not None:
                self.viol("C10", "order_not_logged", {"market": market.name, "order": repr(order)})
            self.inflight = inf
            self.on_order_log(log)
            self.inflight = None

    # ------------------------------------------------------------------ cancel
    def pre_cancel(self, market, cancel) -> None:
        mo = self.obj2mo.get(id(cancel.order))
        self.cancel_objs[id(cancel)] = cancel  # cancel objects that reached a market (kept alive: ids stay unique)
        self.inflight = {"k": "cancel", "m": market.market_id, "obj": cancel, "mo": mo, "log": None,
                         "vol": cancel.order.volume}

    def cancel_rejected(self, market, cancel, exc) -> None:
        inf = self.inflight or {}
        self.inflight = None
        mm = self.mm[market.market_id]
        self.rec("R", "cancel", market.market_id, type(exc).__name__)
        self.stat("rejected_cancel")
        if "C04" in self.on:
            if inf.get("log") is not None:
                self.viol("C04", "rejected_but_logged", {"market": mm.name})
            self.check_depth(market, mm, "C04", "rejected_changed_book")

    def on_cancel_log(self, log: CancelLog) -> None:
        mm = self.mm.get(log.market_id)
        inf = self.inflight if (self.inflight and self.inflight.get("k") == "cancel") else None
        self.rec("C", log.market_id, log.order_id, log.agent_id, log.cancel_time, log.order_time, log.volume,
                 log.price, log.is_buy, log.kind.name, log.ttl)
        self.stat("cancels")
        if mm is None:
            return
        if inf is not None:
            inf["log"] = log
        market = self.sim.id2market[log.market_id]
        o = mm.orders.get(log.order_id)
        if o is None:
            self.viol("C04", "cancel_unknown_order", {"market": mm.name, "order_id": log.order_id})
            return
        o.n_cancel += 1
        if o.status == "live":
            if log.volume != o.rem:
                self.viol("C04", "cancel_volume", {"market": mm.name, "order": o.brief(), "logged": log.volume})
            if o.filled > 0:
                self.probe("partial_fill_then_cancel")
            if o.ttl is not None and log.cancel_time == o.placed_at + o.ttl:
                self.probe("cancel_in_last_live_step")
            o.status = "cancelled"
            o.term_vol = log.volume
            o.term_kind = "cancelled"
            mm.drop(o)
            self.check_accounting(o, mm)
        else:
            self.probe("cancel_after_" + o.status)
            if "C04" in self.on and o.obj is not None and not o.obj.is_canceled:
                self.viol("C04", "cancel_flag", {"market": mm.name, "order": o.brief()})
        if o.obj is not None and "C04" in self.on and not o.obj.is_canceled:
            self.viol("C04", "cancel_flag", {"market": mm.name, "order": o.brief()})
        if ("C06" in self.on or "C10" in self.on) and log.cancel_time != market.get_time():
            self.viol("C06", "cancel_time", {"market": mm.name, "log": log.cancel_time, "now": market.get_time()})
            self.viol("C10", "cancel_log_fields", {"market": mm.name, "cancel_time": log.cancel_time, "now": market.get_time()})
        self.check_log_fields("C", log, o, mm)
        self.after_book_event(market, mm, "cancel")
        for p in self.plugins:
            p.on_cancel_log(self, log, o, mm, market)

    def post_cancel(self, market, cancel, log) -> None:
        inf = self.inflight
        self.inflight = None
        if inf is not None and inf.get("log") is None:
            if market.logger is not None:
                self.viol("C10", "cancel_not_logged", {"market": market.name, "cancel": repr(cancel)})
            self.inflight = inf
            self.on_cancel_log(log)
            self.inflight = None

    # ------------------------------------------------------------------ fills and rounds
    def pre_round(self, market) -> None:
        mm = self.mm[market.market_id]
        self.round_no += 1
        self.in_round = {
            "m": market.market_id, "fills": [], "running": market.is_running,
            "buy": [(o.oid, o.rem) for o in mm.sorted_side(True)] if "C02" in self.on else None,
            "sell": [(o.oid, o.rem) for o in mm.sorted_side(False)] if "C02" in self.on else None,
            "crossed": self.model_crossed(mm),
            # the session's execution switch as it reads when the round begins (a hook may have flipped it mid-batch)
            "switch": (self.sim.current_session.with_order_execution
                       if self.sim is not None and self.sim.current_session is not None else None),
            "forced": bool(self.ext.get("forced")),
        }
        if self.driver == "B" or "C03" in self.on or "C01" in self.on:
            self.book_sigs.add((mm.book_sig(), market.is_running))

    @staticmethod
    def model_crossed(mm: MMarket) -> bool:
        b = mm.best(True)
        s = mm.best(False)
        if b is None or s is None:
            return False
        if b.is_mkt and s.is_mkt:
            return False  # statement silent
        if b.is_mkt or s.is_mkt:
            return True
        return s.price <= b.price

    def on_execution_log(self, log: ExecutionLog, via_bulk: bool = False) -> None:
        mm = self.mm.get(log.market_id)
        self.rec("E", log.market_id, log.time, log.buy_order_id, log.sell_order_id, log.buy_agent_id,
                 log.sell_agent_id, log.price, log.volume)
        self.stat("fills")
        if mm is None:
            return
        market = self.sim.id2market[log.market_id]
        rnd = self.in_round
        if rnd is not None and rnd["m"] == log.market_id:
            rnd["fills"].append(log)
        elif getattr(market, "_vsim_tap", False):
            self.viol("C01", "fill_outside_round", {"market": mm.name})
        b = mm.orders.get(log.buy_order_id)
        s = mm.orders.get(log.sell_order_id)
        if b is None or s is None or not b.is_buy or s.is_buy:
            self.viol("C01", "fill_unknown_orders", {"market": mm.name, "buy": log.buy_order_id, "sell": log.sell_order_id})
            mm.diverged = True
            return
        # C16 (a) / C09: fills only while running
        if not market.is_running:
            self.viol("C16", "fill_on_stopped_market", {"market": mm.name, "t": log.time})
        for o, nm in ((b, "buy"), (s, "sell")):
            if o.status != "live":
                if o.status == "cancelled":
                    self.viol("C04", "fill_after_cancel", {"market": mm.name, "order": o.brief(), "t": log.time})
                elif o.status == "expired":
                    self.viol("C04", "fill_after_expiry", {"market": mm.name, "order": o.brief(), "t": log.time})
                else:
                    self.viol("C04", "fill_of_filled_order", {"market": mm.name, "order": o.brief(), "t": log.time})
            if o.ttl is not None and log.time > o.placed_at + o.ttl:
                self.viol("C04", "fill_after_expiry", {"market": mm.name, "order": o.brief(), "t": log.time})
            if o.ttl is not None and log.time == o.placed_at + o.ttl:
                self.probe("fill_in_last_live_step")
        if log.volume <= 0 or log.volume > b.rem or log.volume > s.rem:
            self.viol("C04", "fill_volume_exceeds_resting",
                      {"market": mm.name, "vol": log.volume, "buy": b.brief(), "sell": s.brief()})
        if "C01" in self.on:
            if log.buy_agent_id != b.agent or log.sell_agent_id != s.agent:
                self.viol("C01", "fill_wrong_agents", {"market": mm.name, "log": [log.buy_agent_id, log.sell_agent_id],
                                                       "model": [b.agent, s.agent]})
            if not b.is_mkt and log.price > b.price:
                self.viol("C01", "price_above_buy_limit", {"market": mm.name, "price": log.price, "buy": b.brief(), "sell": s.brief()})
            if not s.is_mkt and log.price < s.price:
                self.viol("C01", "price_below_sell_limit", {"market": mm.name, "price": log.price, "buy": b.brief(), "sell": s.brief()})
            # the limit the trader handed to the market (after hooks, before tick rounding) binds as well
            eps = REL * max(abs(log.price), mm.tick)
            if not b.is_mkt and b.sub_price is not None and log.price > b.sub_price + eps:
                self.viol("C01", "price_above_submitted_buy_limit", {"market": mm.name, "price": log.price, "submitted": b.sub_price, "buy": b.brief()})
            if not s.is_mkt and s.sub_price is not None and log.price < s.sub_price - eps:
                self.viol("C01", "price_below_submitted_sell_limit", {"market": mm.name, "price": log.price, "submitted": s.sub_price, "sell": s.brief()})
        if ("C06" in self.on or "C10" in self.on) and log.time != market.get_time():
            self.viol("C06", "fill_time", {"market": mm.name, "log": log.time, "now": market.get_time()})
            self.viol("C10", "execution_log_fields", {"market": mm.name, "time": log.time, "now": market.get_time()})
        if "C10" in self.on and (log.buy_agent_id != b.agent or log.sell_agent_id != s.agent or log.market_id != b.mkt):
            self.viol("C10", "execution_log_fields", {"market": mm.name, "log": [log.buy_agent_id, log.sell_agent_id],
                                                      "model": [b.agent, s.agent]})
        if b.agent == s.agent:
            self.probe("self_trade")
        if b.is_mkt and s.is_mkt:
            self.probe("market_vs_market_pair")
        # apply
        for o in (b, s):
            if o.filled > 0 and o.last_fill_t != self.round_no:
                self.probe("resting_order_filled_again")
            o.rem -= log.volume
            o.filled += log.volume
            o.last_fill_t = self.round_no
            if o.rem <= 0 and o.status == "live":
                o.status = "filled"
                mm.drop(o)
                self.check_accounting(o, mm)
        mm.last = log.price
        mm.traded = True
        mm.n_fills += 1
        t = log.time
        mm.exec_vol[t] = mm.exec_vol.get(t, 0) + log.volume
        mm.turnover_terms.setdefault(t, []).append(log.volume * log.price)
        self.ledger.fill(log.market_id, log.buy_agent_id, log.sell_agent_id, log.price, log.volume)
        if not via_bulk:
            self.after_book_event(market, mm, "fill")
        for p in self.plugins:
            p.on_execution_log(self, log, b, s, mm, market)

    def post_round(self, market, logs) -> None:
        rnd = self.in_round
        self.in_round = None
        mm = self.mm[market.market_id]
        if rnd is None:
            return
        seen = rnd["fills"]
        if market.logger is None:
            # a run without a logger: the returned list is the only channel; feed the model by value
            for lg in logs:
                self.in_round = rnd
                self.on_execution_log(lg, via_bulk=True)
                self.in_round = None
            rnd["fills"] = []
            if logs:
                self.after_book_event(market, mm, "fill")
        # the fills returned by the round and the fills reported to the logger are the same objects
        if market.logger is not None and ("C10" in self.on or True):
            ids_seen = [id(x) for x in seen]
            ids_ret = [id(x) for x in logs]
            if ids_seen != ids_ret:
                missing = [x for x in logs if id(x) not in set(ids_seen)]
                if missing:
                    self.viol("C10", "fill_not_logged", {"market": mm.name, "n": len(missing)})
                    for lg in missing:  # keep the model in step
                        self.in_round = rnd
                        if self.retain:
                            self.seen_logs[id(lg)] = "ret"
                            self.keepalive.append(lg)
                        self.on_execution_log(lg, via_bulk=True)
                        self.in_round = None
                extra = [x for x in seen if id(x) not in set(ids_ret)]
                if extra:
                    self.viol("C10", "fill_logged_not_returned", {"market": mm.name, "n": len(extra)})
        fills = list(logs)
        self.rec("R#", market.market_id, len(fills))
        self.stat("rounds")
        if fills:
            self.stat("rounds_nonempty")
            if rnd.get("crossed") and len(fills) >= 2:
                self.probe("crossed_book_cleared")
            if len(fills) >= 3:
                self.probe("round_ge3_fills")
            if rnd["running"] is False:
                self.viol("C16", "round_on_stopped_market", {"market": mm.name})
        if fills and "C01" in self.on:
            prices = {f.price for f in fills}
            if len(prices) != 1:
                self.viol("C01", "round_multiple_prices", {"market": mm.name, "prices": sorted(prices)})
            last = fills[-1]
            b = mm.orders.get(last.buy_order_id)
            s = mm.orders.get(last.sell_order_id)
            if b is not None and s is not None:
                if b.is_mkt and s.is_mkt:
                    self.viol("C01", "last_pair_both_market", {"market": mm.name})
                else:
                    if b.is_mkt:
                        want = s.price
                    elif s.is_mkt:
                        want = b.price
                    else:
                        want = b.price if (b.placed_at, b.oid) < (s.placed_at, s.oid) else s.price
                        if b.placed_at == s.placed_at:
                            self.probe("equal_time_tie_by_id")
                        if b.price != s.price:
                            self.probe("last_pair_prices_differ")
                    if last.price != want:
                        self.viol("C01", "round_price_not_resting",
                                  {"market": mm.name, "price": last.price, "want": want,
                                   "buy": b.brief(), "sell": s.brief()})
            if len({f.buy_order_id for f in fills}) > 1 and len({f.sell_order_id for f in fills}) > 1:
                self.probe("multi_level_sweep")
        if fills and "C02" in self.on and rnd["buy"] is not None:
            for side_name, before, key in (("buy", rnd["buy"], "buy_order_id"), ("sell", rnd["sell"], "sell_order_id")):
                got: Dict[int, int] = {}
                for f in fills:
                    got[getattr(f, key)] = got.get(getattr(f, key), 0) + f.volume
                last_idx = -1
                for i, (oid, rem) in enumerate(before):
                    if oid in got:
                        last_idx = i
                for i, (oid, rem) in enumerate(before[:max(last_idx, 0)]):
                    if got.get(oid, 0) != rem:
                        self.viol("C02", "priority_skipped",
                                  {"market": mm.name, "side": side_name, "skipped_order": oid,
                                   "resting": rem, "filled": got.get(oid, 0),
                                   "book": before[:last_idx + 1]})
                        break
                unknown = [oid for oid in got if oid not in {x for x, _ in before}]
                if unknown:
                    self.viol("C02", "fill_of_order_not_in_book", {"market": mm.name, "orders": unknown})
        if "C03" in self.on or "C09" in self.on:
            self.check_post_round(market, mm, "C03", rnd)
        for p in self.plugins:
            p.post_round(self, market, mm, fills, rnd)
        if "C02" in self.on:
            self.check_comparators(market, mm)

    def round_raised(self, market, exc) -> None:
        self.in_round = None
        mm = self.mm[market.market_id]
        if self.ext.get("forced") and not market.is_running and isinstance(exc, AssertionError):
            return  # a round forced on a stopped market was refused: that is the guard working
        import traceback
        ses = self.sim.current_session if self.sim is not None else None
        if (self.driver == "A" and ses is not None and not market.is_running and isinstance(exc, AssertionError)
                and not self.sessions_cfg[ses.session_id].get("withOrderExecution", True)):
            self.viol("C09", "matching_attempted_in_no_execution_session",
                      {"market": mm.name, "session": ses.session_id, "exc": repr(exc)})
        self.viol("C03", "round_raised", {"market": mm.name, "exc": repr(exc),
                                         "tb": traceback.format_exc(limit=6)[-900:]})

    def check_post_round(self, market, mm: MMarket, prop: str, rnd=None) -> None:
        """C03 post-condition on the public view (kinds from the model)."""
        bb = market.get_buy_order_book()
        sb = market.get_sell_order_book()
        if len(bb) == 0 or len(sb) == 0:
            return
        bbp = market.get_best_buy_price()
        sbp = market.get_best_sell_price()
        if bbp is None and sbp is None:
            self.probe("market_orders_face_each_other_after_round")
            return  # both best orders are market orders: statement silent
        if bbp is None or sbp is None:
            self.viol(prop, "market_order_left_against_limit",
                      {"market": mm.name, "best_bid": bbp, "best_ask": sbp,
                       "buy_book": list(bb.items())[:4], "sell_book": list(sb.items())[:4]})
            return
        if not (bbp < sbp):
            self.viol(prop, "book_crossed_after_round",
                      {"market": mm.name, "best_bid": bbp, "best_ask": sbp})

    # ------------------------------------------------------------------ shared checks
    def check_rounding(self, mm: MMarket, p: float, q: float, is_buy: bool) -> None:
        tick = mm.tick
        exact = is_pow2(tick)
        self.stat("c19_checked")
        try:
            fp, fq, ft = Fraction(p), Fraction(q), Fraction(tick)
        except (ValueError, OverflowError):
            return
        on_grid = (fp % ft) == 0
        if on_grid:
            self.probe("c19_on_grid")
            if q != p:
                self.viol("C19", "on_grid_price_changed", {"market": mm.name, "tick": tick, "submitted": p, "accepted": q})
            return
        self.probe("c19_off_grid_buy" if is_buy else "c19_off_grid_sell")
        if exact:
            if (fq % ft) != 0:
                self.viol("C19", "accepted_off_grid", {"market": mm.name, "tick": tick, "submitted": p, "accepted": q})
            ok = (fp - ft < fq <= fp) if is_buy else (fp <= fq < fp + ft)
            if not ok:
                self.viol("C19", "rounding_direction_or_size",
                          {"market": mm.name, "tick": tick, "submitted": p, "accepted": q, "is_buy": is_buy})
        else:
            g = round(q / tick)
            eps = REL * max(abs(p), abs(q), tick)
            if abs(q - g * tick) > eps:
                self.viol("C19", "accepted_off_grid", {"market": mm.name, "tick": tick, "submitted": p, "accepted": q})
            ok = (p - tick - eps < q <= p + eps) if is_buy else (p - eps <= q < p + tick + eps)
            if not ok:
                self.viol("C19", "rounding_direction_or_size",
                          {"market": mm.name, "tick": tick, "submitted": p, "accepted": q, "is_buy": is_buy})
            # the float grid may not contain p although the exact test says "off grid": moving by a
            # full tick is only acceptable within the dead band; moving towards the aggressive side never
            if is_buy and q > p + eps or (not is_buy) and q < p - eps:
                self.viol("C19", "more_aggressive", {"market": mm.name, "tick": tick, "submitted": p, "accepted": q})

    def check_accounting(self, o: MOrder, mm: MMarket) -> None:
        if "C04" not in self.on:
            return
        term = o.term_vol if o.term_vol is not None else 0
        if o.status == "filled":
            term = 0
        if o.vol0 != o.filled + term:
            self.viol("C04", "accounting_identity",
                      {"market": mm.name, "order": o.brief(), "accepted": o.vol0, "fills": o.filled, "terminal": term})
        if o.obj is not None and o.status in ("filled", "expired", "cancelled"):
            want = 0 if o.status == "filled" else term
            if o.obj.volume != want:
                self.viol("C04", "order_object_volume", {"market": mm.name, "order": o.brief(), "obj_volume": o.obj.volume})

    def check_log_fields(self, k: str, log, o: MOrder, mm: MMarket) -> None:
        if "C10" not in self.on:
            return
        ot = log.order_time
        bad = (log.agent_id != o.agent or log.is_buy != o.is_buy or (log.kind == MARKET_ORDER) != o.is_mkt
               or log.price != o.price or log.ttl != o.ttl or ot != o.placed_at or log.market_id != o.mkt)
        if bad:
            self.viol("C10", "cancel_log_fields" if k == "C" else "expiration_log_fields",
                      {"market": mm.name, "order": o.brief(), "log": {kk: repr(v) for kk, v in vars(log).items()}})

    def check_depth(self, market, mm: MMarket, prop: str, kind: str) -> bool:
        ok = True
        for is_buy in (True, False):
            got = list((market.get_buy_order_book() if is_buy else market.get_sell_order_book()).items())
            want = mm.depth(is_buy)
            if got != want:
                self.viol(prop, kind, {"market": mm.name, "side": "buy" if is_buy else "sell",
                                       "got": got[:6], "want": want[:6]})
                ok = False
        return ok

    def check_quotes(self, market, mm: MMarket, where: str) -> None:
        """best quotes and depth describe the current (model) book."""
        if mm.diverged:
            return
        for is_buy in (True, False):
            got = market.get_best_buy_price() if is_buy else market.get_best_sell_price()
            want = mm.best_price(is_buy)
            if got != want:
                top = mm.best(is_buy)
                # a market order on top also gives None
                prop = "C02" if "C02" in self.on else ("C08" if "C08" in self.on else "C04")
                self.viol(prop, "best_quote_wrong",
                          {"market": mm.name, "side": "buy" if is_buy else "sell", "got": got, "want": want,
                           "where": where, "top": top.brief() if top else None})
            if self.driver == "B" or "C02" in self.on:
                book = market.buy_order_book if is_buy else market.sell_order_book
                bo = book.get_best_order()
                top = mm.best(is_buy)
                if (bo is None) != (top is None) or (bo is not None and bo.order_id != top.oid):
                    self.viol("C02", "best_order_wrong",
                              {"market": mm.name, "side": "buy" if is_buy else "sell", "where": where,
                               "got": None if bo is None else bo.order_id, "want": None if top is None else top.brief()})
                if hasattr(book, "get_best_price"):
                    bp = book.get_best_price()
                    wp = None if (top is None or top.is_mkt) else top.price
                    if bp != wp:
                        self.viol("C02", "best_order_wrong", {"market": mm.name, "side": "buy" if is_buy else "sell", "where": where,
                                                              "getter": "OrderBook.get_best_price", "got": bp, "want": wp})
        if "C08" in self.on or "C04" in self.on:
            self.check_depth(market, mm, "C08" if "C08" in self.on else "C04", "depth_wrong")

    def after_book_event(self, market, mm: MMarket, ev: str) -> None:
        """per-event tap: the logger is called after the book change and the price refresh."""
        if mm.diverged:
            return
        if "C08" in self.on or "C02" in self.on or "C04" in self.on:
            self.check_quotes(market, mm, ev)
        want_mid = mm.calc_mid()
        running = market.is_running
        if running:
            if mm.traded:
                want_mp = mm.last
            elif want_mid is not None:
                want_mp = want_mid
            else:
                want_mp = mm.mp
        else:
            want_mp = mm.mp
        if "C08" in self.on:
            t = market.get_time()
            mid = market.get_mid_price()
            if not close(mid, want_mid, 0.0):
                self.viol("C08", "mid_wrong", {"market": mm.name, "after": ev, "got": mid, "want": want_mid})
            mp = market.get_market_price()
            if not close(mp, want_mp, 0.0):
                kind = "price_moved_while_stopped" if not running else "market_price_wrong"
                self.viol("C08", kind, {"market": mm.name, "after": ev, "got": mp, "want": want_mp,
                                        "running": running, "traded": mm.traded, "mid": want_mid})
            last = market.get_last_executed_price()
            if not close(last, mm.last, 0.0):
                self.viol("C08", "last_trade_price_wrong", {"market": mm.name, "after": ev, "got": last, "want": mm.last})
            self.check_counters(market, mm, t)
            if not running and ev != "fill":
                if not mm.traded and want_mid is not None and not close(want_mid, mm.mp, 0.0):
                    self.probe("stopped_mid_differs_from_price")
        if not running and ev != "fill":
            self.probe("book_event_while_stopped")
        mm.mid = want_mid
        mm.mp = market.get_market_price() if "C08" not in self.on else want_mp

    def check_counters(self, market, mm: MMarket, t: int) -> None:
        ev = market.get_executed_volume(t)
        if ev != mm.exec_vol.get(t, 0):
            self.viol("C08", "executed_volume", {"market": mm.name, "t": t, "got": ev, "want": mm.exec_vol.get(t, 0)})
        terms = mm.turnover_terms.get(t, [])
        want = 0.0
        for x in terms:
            want += x
        got = market.get_executed_total_price(t)
        if not close(float(got), want, REL, sum(abs(x) for x in terms)):
            self.viol("C08", "turnover", {"market": mm.name, "t": t, "got": got, "want": want})
        nb = market.get_n_buy_order(t)
        ns = market.get_n_sell_order(t)
        if nb != mm.n_buy.get(t, 0) or ns != mm.n_sell.get(t, 0):
            self.viol("C08", "order_counts", {"market": mm.name, "t": t, "got": [nb, ns],
                                             "want": [mm.n_buy.get(t, 0), mm.n_sell.get(t, 0)]})

    def check_series_forms(self, market, mm: MMarket, t: int) -> None:
        """the list getters asked for a window in other orders and forms describe the same steps as the
        single getters (element i belongs to times[i])."""
        if t < 2:
            return
        lo = max(0, t - 4)
        k = self.seq % 4
        if k == 0:
            times = list(range(t, lo - 1, -1))            # newest first
        elif k == 1:
            times = range(t, lo - 1, -1)                  # the same as a range object
        elif k == 2:
            times = [lo, lo, t]                           # a repeated step; as long as the span when t - lo == 2
        else:
            times = [t - 1, t, lo]                        # a permuted window
        pairs = ((market.get_executed_volumes, market.get_executed_volume), (market.get_executed_total_prices, market.get_executed_total_price),
                 (market.get_n_buy_orders, market.get_n_buy_order), (market.get_n_sell_orders, market.get_n_sell_order),
                 (market.get_market_prices, market.get_market_price), (market.get_mid_prices, market.get_mid_price),
                 (market.get_last_executed_prices, market.get_last_executed_price))
        for multi, single in pairs:
            try:
                got = list(multi(times))
                want = [single(s_) for s_ in times]
            except Exception:
                continue
            if got != want and not any(isinstance(x, float) and x != x for x in got + want):
                self.viol("C08", "series_getter_order", {"market": mm.name, "getter": multi.__name__, "times": list(times),
                                                         "got": got, "want": want})
                break
        self.stat("series_forms_checked")

    def check_vwap(self, market, mm: MMarket) -> None:
        t = market.get_time()
        tv = 0
        tt = 0.0
        absum = 0.0
        for s in range(0, t + 1):
            tv += mm.exec_vol.get(s, 0)
            st = 0.0
            for x in mm.turnover_terms.get(s, []):
                st += x
            tt += st
            absum += abs(st)
        got = market.get_vwap()
        if tv == 0:
            if not (isinstance(got, float) and math.isnan(got)):
                self.viol("C08", "vwap_not_nan", {"market": mm.name, "t": t, "got": got})
        else:
            want = tt / tv
            if not close(got, want, 1e-9):
                self.viol("C08", "vwap", {"market": mm.name, "t": t, "got": got, "want": want})
        if t >= 1:
            # an earlier time: slice boundaries
            s_ = t - 1
            tv2 = sum(mm.exec_vol.get(s, 0) for s in range(0, s_ + 1))
            got2 = market.get_vwap(s_)
            if tv2 == 0:
                if not math.isnan(got2):
                    self.viol("C08", "vwap_not_nan", {"market": mm.name, "t": s_, "got": got2})
            else:
                tt2 = 0.0
                for s in range(0, s_ + 1):
                    st = 0.0
                    for x in mm.turnover_terms.get(s, []):
                        st += x
                    tt2 += st
                if not close(got2, tt2 / tv2, 1e-9):
                    self.viol("C08", "vwap", {"market": mm.name, "t": s_, "got": got2, "want": tt2 / tv2})

    def check_comparators(self, market, mm: MMarket) -> None:
        """C02 (c): the comparison operators on the live Order objects of one side."""
        if self.cmp_budget <= 0:
            return
        for is_buy in (True, False):
            book = market.buy_order_book if is_buy else market.sell_order_book
            objs = list(book.priority_queue)
            n = len(objs)
            if n < 2:
                continue
            if n > 12:
                objs = objs[:12]
                n = 12
            side = mm.side(is_buy)
            for i in range(n):
                a = objs[i]
                ma = side.get(a.order_id)
                if ma is None:
                    continue
                if not (a == a) or (a < a) or (a > a) or (a != a) or not (a <= a) or not (a >= a):
                    self.viol("C02", "comparator_reflexive", {"market": mm.name, "order": ma.brief()})
                for j in range(i + 1, n):
                    b = objs[j]
                    mb = side.get(b.order_id)
                    if mb is None:
                        continue
                    self.cmp_budget -= 1
                    lt, gt = a < b, a > b
                    lt2, gt2 = b < a, b > a
                    want = ma.rank() < mb.rank()
                    ok = (lt != lt2) and (gt == lt2) and (gt2 == lt) and (lt == want) \
                        and (a != b) and not (a == b) and ((a <= b) == lt) and ((a >= b) == gt)
                    if not ok:
                        self.viol("C02", "comparator_not_strict_total_order",
                                  {"market": mm.name, "a": ma.brief(), "b": mb.brief(),
                                   "a<b": lt, "b<a": lt2, "a>b": gt, "b>a": gt2, "rank_says_a_first": want})
                    if (ma.price == mb.price or (ma.is_mkt and mb.is_mkt)) and ma.placed_at == mb.placed_at:
                        self.probe("cmp_tie_price_time")

    # ------------------------------------------------------------------ quiescent observation (consults, tap0 hooks, step records)
    def observe(self, where: str) -> None:
        if self.sim is None or self.aborted:
            return
        for p in self.plugins:
            p.observe(self, where)

    # ------------------------------------------------------------------ end of run
    def finish(self, completed: bool = True) -> None:
        for mm in self.mm.values():
            for o in mm.orders.values():
                if o.status == "live":
                    # still resting at the end
                    if "C04" in self.on:
                        if o.rem <= 0:
                            self.viol("C04", "zero_volume_resting", {"market": mm.name, "order": o.brief()})
                        if o.vol0 != o.filled + o.rem:
                            self.viol("C04", "accounting_identity", {"market": mm.name, "order": o.brief()})
                        if o.obj is not None and o.obj.volume != o.rem:
                            self.viol("C04", "order_object_volume", {"market": mm.name, "order": o.brief(),
                                                                     "obj_volume": o.obj.volume})
                if "C04" in self.on and o.n_exp > 1:
                    self.viol("C04", "expired_twice", {"market": mm.name, "order": o.brief()})
        if completed and self.sim is not None and ("C08" in self.on or "C04" in self.on or "C02" in self.on):
            for m in self.markets:
                mm = self.mm[m.market_id]
                if not mm.diverged and m.get_time() >= 0:
                    self.check_quotes(m, mm, "end")
                    if "C08" in self.on:
                        self.check_vwap(m, mm)
        for p in self.plugins:
            p.finish(self, completed)


class Plugin:
    """per-property oracle extension; all callbacks optional."""

    def attach(self, mon): pass
    def post_tick(self, mon, market, mm, t): pass
    def on_order_log(self, mon, log, o, mm, market, inf): pass
    def on_cancel_log(self, mon, log, o, mm, market): pass
    def on_execution_log(self, mon, log, b, s, mm, market): pass
    def post_round(self, mon, market, mm, fills, rnd): pass
    def observe(self, mon, where): pass
    def finish(self, mon, completed): pass


# ---------------------------------------------------------------------- channel dispatch (added to Monitor below)
def _on_written(self, log, code, channel, first):
    if code in ("SimB", "SimE", "SesB", "SesE"):
        sid = getattr(getattr(log, "session", None), "session_id", None)
        self.rec("W", code, sid)
        if code == "SesB":
            self.cur_session_idx += 1
    if not first:
        self.stat("duplicate_writes")
    for p in self.plugins:
        p.on_written(self, log, code, channel, first)


def _on_step_record(self, log, code):
    m = log.market
    self.rec(code, m.market_id, m.get_time(), log.session.session_id)
    self.stat("step_records")
    if code == "StE" and self.markets and m is self.markets[0]:
        sc = self.ext.pop("_step_consults", None)
        if sc and len(sc) >= 2:
            self.consult_seqs.add(tuple(sc))
    for p in self.plugins:
        p.on_step_record(self, log, code)
    self.observe(code)


def _on_processed(self, log, code):
    for p in self.plugins:
        p.on_processed(self, log, code)


def _on_consult(self, agent):
    t = self.markets[0].get_time() if self.markets else -1
    self.rec("Q", agent.agent_id, t)
    self.stat("consults")
    self.ext.setdefault("_step_consults", []).append(agent.agent_id)
    for p in self.plugins:
        p.on_consult(self, agent, t)
    self.observe("consult")


def _on_returned(self, agent, out):
    self.rec("Ret", agent.agent_id, len(out))
    for o_ in out:
        self.returned_by[id(o_)] = agent.agent_id  # who actually handed the object in (kept alive by the agents' lists)
    for p in self.plugins:
        p.on_returned(self, agent, out)


def _on_built(self, agent, obj):
    pass


def _on_hostile(self, agent, kind, obj):
    self.expect_abort = {"kind": kind, "agent": agent.agent_id, "seq": self.seq,
                         "orders": self.stats.get("orders", 0), "cancels": self.stats.get("cancels", 0)}
    self.probe("hostile_" + kind)


def _on_callback(self, agent, kind, log):
    if kind == "executed":
        self.rec("CB", agent.agent_id, kind, log.market_id, log.buy_order_id, log.sell_order_id, log.volume)
    elif kind == "submitted":
        self.rec("CB", agent.agent_id, kind, log.market_id, log.order_id)
    else:
        self.rec("CB", agent.agent_id, kind, log.market_id, log.order_id)
    self.stat("callbacks")
    for p in self.plugins:
        p.on_callback(self, agent, kind, log)


def _tap(self, idx, phase, kind, obj):
    for p in self.plugins:
        p.on_tap(self, idx, phase, kind, obj)
    if idx == 0 and phase == "n":
        self.observe(kind)


def _probe_call(self, name, kind, before, obj):
    for p in self.plugins:
        p.on_probe_call(self, name, kind, before, obj)


def _probe_altered(self, name, order):
    self.probe("hook_altered_order")
    for p in self.plugins:
        p.on_probe_altered(self, name, order)


def _probe_armed(self, name, hook):
    self.probe("hook_registered_at_run_time")
    for p in self.plugins:
        p.on_probe_armed(self, name, hook)


Monitor.probe_armed = _probe_armed
Monitor.on_written = _on_written
Monitor.on_step_record = _on_step_record
Monitor.on_processed = _on_processed
Monitor.on_consult = _on_consult
Monitor.on_returned = _on_returned
Monitor.on_built = _on_built
Monitor.on_hostile = _on_hostile
Monitor.on_callback = _on_callback
Monitor.tap = _tap
Monitor.probe_call = _probe_call
Monitor.probe_altered = _probe_altered


def _noop(self, *a, **k):
    return None


for _n in ("pre_tick", "setup_failed", "on_probe_altered", "on_written", "on_step_record", "on_processed", "on_consult", "on_returned", "on_callback",
           "on_tap", "on_probe_call", "on_probe_armed"):
    setattr(Plugin, _n, _noop)
