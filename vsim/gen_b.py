"""Seeded generator of driver-B histories (market-level schedules)."""
import math
import sys
import random
from typing import Any, Dict, List

TICKS = [1.0, 0.5, 0.25, 0.1, 10.0, 0.01, 2.0, 0.00001, 3.0, 0.3, 2.5, 1.5, 12.5]


def base_config(n_markets: int, n_agents: int, ticks: List[float], p0s: List[float]) -> Dict[str, Any]:
    cfg: Dict[str, Any] = {
        "simulation": {
            "markets": [f"M{i}" for i in range(n_markets)],
            "agents": ["SA"],
            "sessions": [{"sessionName": 0, "iterationSteps": 1, "withOrderPlacement": True,
                          "withOrderExecution": True, "withPrint": False}],
        },
        "SA": {"class": "ScriptedAgent", "numAgents": n_agents, "markets": [f"M{i}" for i in range(n_markets)],
               "assetVolume": 1000, "cashAmount": 1000000},
    }
    for i in range(n_markets):
        cfg[f"M{i}"] = {"class": "TapMarket", "tickSize": ticks[i], "marketPrice": p0s[i]}
    return cfg


def gen_price(r: random.Random, tick: float, p0: float, side: str, spread_bias: float) -> float:
    """13-level grid around p0 plus off-grid and far prices."""
    u = r.random()
    lvl = r.randint(-6, 6)
    if u < 0.15:  # passive side of the grid
        lvl = -abs(lvl) if side == "b" else abs(lvl)
    base_lvl = round(p0 / tick)
    px = (base_lvl + lvl) * tick
    v = r.random()
    if v < 0.18:
        px += r.random() * tick  # off grid
    elif v < 0.22:
        px = p0 * r.choice([0.5, 0.8, 1.25, 2.0])  # far
    elif v < 0.26:
        # a hair off a grid point: fractions of a tick down to one unit in the last place
        w_ = r.choice([1e-9, -1e-9, 0.5, 0.999999, 2.0 ** -40, -2.0 ** -40, 2.0 ** -31, -2.0 ** -31, 1e-12, -1e-12, "up", "down"])
        if w_ == "up":
            px = math.nextafter(px, math.inf)
        elif w_ == "down":
            px = math.nextafter(px, -math.inf)
        else:
            px = px + tick * w_
    elif v < 0.275:
        px = tick * r.choice([0.4, 0.75, 0.999, 1.5])  # below or just above one tick
    elif v < 0.283:
        # accepted with a warning only: a price of exactly zero, or a negative one
        return float(r.choice([0.0, 0.0, -0.0, -tick, -1.5 * tick, -0.1 * p0]))
    if px <= 0:
        px = tick
    return float(px)


def gen_history(r: random.Random, profile: str = "mix") -> Dict[str, Any]:
    n_markets = 1 if r.random() < 0.75 else 2
    n_agents = r.randint(2, 5)
    ticks = [r.choice(TICKS) if r.random() < 0.6 else 1.0 for _ in range(n_markets)]
    p0s = []
    for t in ticks:
        p0s.append(float(round(r.choice([100, 300, 50, 1000]) / t) * t) if t >= 0.01 else 300.0)
    if r.random() < 0.06:
        # a price that is a billion ticks or more away from zero (an index level on a fine grid, a huge nominal
        # price on a unit grid): one tick is then below 1e-9 of the price
        for i_ in range(n_markets):
            ticks[i_], p0s[i_] = r.choice([(0.00001, 30000.0), (0.00001, 38000.0), (1.0, 5e9), (0.01, 2.5e7)])
    cfg = base_config(n_markets, n_agents, ticks, p0s)
    n_ops = r.randint(5, 60)
    continuous = r.random() < 0.5
    p_market = r.choice([0.0, 0.05, 0.15, 0.35]) if profile != "nomarket" else 0.0
    p_ttl = r.choice([0.0, 0.3, 0.7])
    p_cancel = r.choice([0.05, 0.15, 0.3])
    p_tick = r.choice([0.05, 0.15, 0.3])
    p_toggle = r.choice([0.0, 0.0, 0.05, 0.15])
    p_hostile = r.choice([0.0, 0.0, 0.03, 0.08])
    reform = r.random() < 0.06  # tick-size reforms between steps
    bigvol = r.random() < 0.15
    typed = r.random() < 0.2  # order fields computed with NumPy / float arithmetic (same values, other types)
    ops: List[Dict[str, Any]] = []
    outage = 0
    templates = []
    if r.random() < 0.25:
        templates.append("toprem")
    if r.random() < 0.3:
        templates.append("deep")
    if r.random() < 0.25:
        templates.append("samelevel")
    if r.random() < 0.25:
        templates.append("mkt_both")
    if r.random() < 0.2:
        templates.append("ttl_race")

    def add(m=None, side=None, kind=None, px=None, vol=None, ttl="d", cont=None):
        m = r.randrange(n_markets) if m is None else m
        side = r.choice("bs") if side is None else side
        if kind is None:
            kind = "market" if r.random() < p_market else "limit"
        op = {"k": "add", "a": r.randrange(n_agents), "m": m, "side": side, "kind": kind,
              "vol": (r.randint(50, 100) if bigvol and r.random() < 0.3 else r.randint(1, 5)) if vol is None else vol}
        if kind == "limit":
            op["px"] = gen_price(r, ticks[m], p0s[m], side, 0.0) if px is None else px
        if ttl == "d":
            ttl = r.choice([1, 2, 3, 10]) if r.random() < p_ttl else None
            if ttl is not None and r.random() < 0.02:
                ttl = r.choice([sys.maxsize, 2 ** 63 - 1, 2 ** 62, 10 ** 18])  # "never expires"
        if ttl is not None:
            op["ttl"] = ttl
        if typed and r.random() < 0.3 and not (ttl is not None and ttl > 10 ** 9):
            # (a huge lifetime stays a Python int: in a fixed-width NumPy type the addition of the acceptance time
            # would overflow in NumPy's own arithmetic, which is not pams' doing)
            op["typ"] = r.choice(["np", "fl", "fr", "dc", "pk", "ip"])
        c = (continuous and outage == 0) if cont is None else cont
        if c:
            op["cont"] = True
        ops.append(op)

    for tpl in templates:
        m = r.randrange(n_markets)
        t = ticks[m]
        base = round(p0s[m] / t)
        if tpl == "deep":
            side = r.choice("bs")
            n = r.randint(8, 15)
            for _ in range(n):
                lv = r.randint(1, 6)
                px = (base - lv) * t if side == "b" else (base + lv) * t
                add(m=m, side=side, kind="limit", px=max(px, t), cont=False, ttl=r.choice([None, None, 1, 2]))
                if r.random() < 0.2:
                    ops.append({"k": "tick"})
            for _ in range(r.randint(3, 8)):
                u = r.random()
                if u < 0.6:
                    ops.append({"k": "cancel", "m": m, "ref": "live", "nth": r.randrange(40), "cont": False})
                elif u < 0.8:
                    ops.append({"k": "tick"})
                else:
                    # take out the top with a crossing order
                    add(m=m, side="s" if side == "b" else "b", kind="market", vol=r.randint(1, 3), cont=True, ttl=None)
        elif tpl == "toprem":
            # 7-14 resting orders on one side; non-top cancels interleaved with removals of the top (cancel of the
            # best order, or a unit market order), no matching round or expiry in between to repair the heap
            side = r.choice("bs")
            for _ in range(r.randint(7, 14)):
                lv = r.randint(0, 9)
                px = (base - lv) * t if side == "b" else (base + lv) * t
                add(m=m, side=side, kind="limit", px=max(px, t), vol=r.randint(1, 3), cont=False, ttl=None)
            for _ in range(r.randint(4, 10)):
                u = r.random()
                if u < 0.55:
                    ops.append({"k": "cancel", "m": m, "ref": "nonbest", "side": side, "nth": r.randrange(40), "cont": False})
                elif u < 0.9:
                    ops.append({"k": "cancel", "m": m, "ref": "best", "side": side, "cont": False})
                else:
                    add(m=m, side="s" if side == "b" else "b", kind="market", vol=r.randint(1, 4), cont=True, ttl=None)
        elif tpl == "samelevel":
            side = r.choice("bs")
            px = (base + r.randint(-2, 2)) * t
            for _ in range(r.randint(3, 7)):
                add(m=m, side=side, kind="limit", px=max(px, t), vol=r.randint(1, 4), cont=False)
            add(m=m, side="s" if side == "b" else "b", kind="limit", px=max(px, t), vol=r.randint(2, 9), cont=True)
        elif tpl == "mkt_both":
            for _ in range(r.randint(1, 3)):
                add(m=m, side="b", kind="market", vol=r.randint(1, 4), cont=False, ttl=None)
            for _ in range(r.randint(0, 3)):
                add(m=m, side="s", kind="market", vol=r.randint(1, 4), cont=False, ttl=None)
            for _ in range(r.randint(0, 3)):
                add(m=m, side=r.choice("bs"), kind="limit", cont=False)
            ops.append({"k": "match", "m": m})
        elif tpl == "ttl_race":
            ttl = r.choice([1, 2])
            px = base * t
            add(m=m, side="b", kind="limit", px=px, vol=3, ttl=ttl, cont=False)
            for _ in range(ttl):
                ops.append({"k": "tick"})
            u = r.random()
            if u < 0.4:
                add(m=m, side="s", kind="limit", px=px, vol=r.choice([1, 3, 5]), ttl=None, cont=True)
            elif u < 0.7:
                ops.append({"k": "cancel", "m": m, "ref": "live", "nth": 0, "cont": True})
            ops.append({"k": "tick"})
            ops.append({"k": "cancel", "m": m, "ref": r.choice(["expired", "filled", "cancelled", "any"]), "nth": 0, "cont": True})

    while len(ops) < n_ops:
        u = r.random()
        if outage > 0:
            outage -= 1
            if outage == 0:
                ops.append({"k": "match_all"})
                continue
        elif not continuous and r.random() < 0.12:
            ops.append({"k": "match", "m": r.randrange(n_markets)} if r.random() < 0.5 else {"k": "match_all"})
            continue
        elif continuous and r.random() < 0.06:
            outage = r.randint(3, 12)
        if u < p_cancel:
            ref = r.choice(["live", "live", "live", "filled", "expired", "cancelled", "any"])
            op = {"k": "cancel", "m": r.randrange(n_markets), "ref": ref, "nth": r.randrange(50)}
            if continuous and outage == 0:
                op["cont"] = True
            ops.append(op)
        elif u < p_cancel + p_tick:
            ops.append({"k": "tick"})
            if reform and r.random() < 0.15:
                ops.append({"k": "retick", "m": r.randrange(n_markets), "tick": r.choice([1.0, 0.25, 8.0, 0.5, 2.0, 0.1, 3.0])})
        elif u < p_cancel + p_tick + p_toggle:
            m = r.randrange(n_markets)
            ops.append({"k": "run", "m": m, "v": r.random() < 0.5})
            if r.random() < 0.3:
                ops.append({"k": "match", "m": m, "force": True})
        elif u < p_cancel + p_tick + p_toggle + p_hostile:
            k = r.choice(["resubmit", "wrong_market", "ghost_cancel", "cancel_wrong_market", "strict_offgrid", "ghost_cancel"])
            m = r.randrange(n_markets)
            hop = {"k": k, "m": m, "a": r.randrange(n_agents), "side": r.choice("bs"),
                   "px": p0s[m] + r.choice([0, 0, 1, -1, 2]) * ticks[m] + (r.choice([0.0, 0.3, 0.5]) * ticks[m] if k == "wrong_market" else 0.0),
                   "ref": r.choice(["live", "filled", "cancelled", "expired", "any"]), "nth": r.randrange(20)}
            if k in ("wrong_market", "ghost_cancel") and r.random() < 0.6:
                hop["then"] = True  # carry on with the same object after the refusal
                hop["cont"] = continuous and outage == 0
                if k == "ghost_cancel":
                    hop["vol"] = r.randint(1, 5)
                    if r.random() < 0.5:
                        hop["ttl"] = r.randint(1, 4)
            ops.append(hop)
        else:
            add()
    ops.append({"k": "run", "m": 0, "v": True})
    if n_markets > 1:
        ops.append({"k": "run", "m": 1, "v": True})
    ops.append({"k": "match_all"})
    ops.append({"k": "tick"})
    scn = {"format": 1, "driver": "B", "runner_seed": r.randrange(2 ** 31), "config": cfg, "ops": ops,
           "knobs": {"storage_chunk": r.choice([None, None, 2, 3, 5])}, "taps": False}
    if r.random() < 0.12:
        scn["logger"] = False  # a run without any logger: nothing keeps the log objects alive
    if r.random() < 0.12:
        scn["settle"] = "batched"  # fills of several rounds and markets settled with one call
    if r.random() < 0.1:
        scn["extra_agent"] = r.choice([n_agents + 3, 1000, 7])  # one more agent under an id that is not its rank
        for op in ops:
            if "a" in op and r.random() < 0.3:
                op["a"] = n_agents  # the hand-registered agent is the last one in the list
    return scn


def gen_deep(r: random.Random, profile: str = "deep") -> Dict[str, Any]:
    """long market-level histories: deep books (hundreds of resting orders), thousands of ops and order ids,
    hundreds of clock steps (several storage chunks), long time-to-live, large volumes and prices."""
    n_agents = r.randint(4, 20)
    tick = r.choice([1.0, 0.5, 0.01, 0.1, 0.25])
    p0 = float(r.choice([300, 1000, 50000, 1e7])) if r.random() < 0.5 else 300.0
    p0 = float(round(p0 / tick) * tick)
    cfg = base_config(1, n_agents, [tick], [p0])
    cfg["SA"]["assetVolume"] = 10 ** 7
    cfg["SA"]["cashAmount"] = 10 ** 12
    n_ops = r.choice([600, 1200, 2500]) if r.random() < 0.95 else 6000
    spread = r.choice([20, 60, 200])
    bigvol = r.random() < 0.3
    p_tick = r.choice([0.05, 0.15, 0.3])
    p_cancel = r.choice([0.03, 0.1, 0.2])
    p_sweep = r.choice([0.01, 0.03])
    ttl_choices = r.choice([[None], [None, 50, 200], [20, 100, 300], [None, 5, 1000]])
    continuous = r.random() < 0.8
    base = round(p0 / tick)
    ops: List[Dict[str, Any]] = []
    outage = 0
    mass_at = set(r.sample(range(n_ops), r.choice([0, 1, 2, 3])))
    for _i in range(n_ops):
        if _i in mass_at:
            # mass expiry: dozens of orders of one side (some of both) accepted in one step with one ttl, the clock
            # passes their expiry in one tick, then a multi-level round follows before anything else repairs the book
            side = r.choice("bs")
            n_burst = r.choice([20, 33, 40, 70, 130, 300])
            ttl = r.choice([1, 2, 5])
            for j in range(n_burst):
                lv = r.randint(0, max(2, spread // 2))
                sd = side if r.random() < 0.85 else ("s" if side == "b" else "b")
                px = (base - lv) * tick if sd == "b" else (base + lv) * tick
                ops.append({"k": "add", "a": r.randrange(n_agents), "m": 0, "side": sd, "kind": "limit",
                            "px": float(max(tick, px)), "vol": r.randint(1, 5), "ttl": ttl})
            keep = r.randint(0, 6)
            for j in range(keep):  # orders that stay behind the expiring ones
                lv = r.randint(0, max(2, spread // 2))
                px = (base - lv) * tick if side == "b" else (base + lv) * tick
                ops.append({"k": "add", "a": r.randrange(n_agents), "m": 0, "side": side, "kind": "limit",
                            "px": float(max(tick, px)), "vol": r.randint(1, 5)})
            ops.append({"k": "tick", "n": ttl + 1})
            opp = "s" if side == "b" else "b"
            ops.append({"k": "add", "a": r.randrange(n_agents), "m": 0, "side": opp, "kind": r.choice(["limit", "market"]),
                        "vol": r.randint(3, 30), "cont": True,
                        **({"px": float(max(tick, (base + (-spread if opp == "s" else spread)) * tick))})})
            if ops[-1]["kind"] == "market":
                del ops[-1]["px"]
            continue
        u = r.random()
        if outage > 0:
            outage -= 1
            if outage == 0:
                ops.append({"k": "match_all"})
        elif r.random() < 0.004:
            outage = r.randint(20, 150)
        cont = continuous and outage == 0
        if u < p_tick:
            ops.append({"k": "tick", "n": 1 if r.random() < 0.9 else r.randint(2, 40)})
        elif u < p_tick + p_cancel:
            ops.append({"k": "cancel", "m": 0, "ref": r.choice(["live", "live", "live", "any", "filled", "expired"]),
                        "nth": r.randrange(100000), **({"cont": True} if cont else {})})
        elif u < p_tick + p_cancel + p_sweep:
            side = r.choice("bs")
            op = {"k": "add", "a": r.randrange(n_agents), "m": 0, "side": side,
                  "kind": "market" if r.random() < 0.4 else "limit", "vol": r.randint(20, 400) * (1000 if bigvol else 1)}
            if op["kind"] == "limit":
                op["px"] = float(max(tick, (base + (spread if side == "b" else -spread)) * tick))
            if cont:
                op["cont"] = True
            ops.append(op)
        else:
            side = r.choice("bs")
            lv = int(abs(r.gauss(0, spread / 2.0))) + (0 if r.random() < 0.1 else 1)
            if r.random() < 0.07:
                lv = -r.randint(0, 3)  # crossing
            px = (base - lv) * tick if side == "b" else (base + lv) * tick
            if r.random() < 0.1:
                px += r.random() * tick
            op = {"k": "add", "a": r.randrange(n_agents), "m": 0, "side": side, "kind": "limit",
                  "px": float(max(tick, px)), "vol": r.randint(1, 9) * (r.choice([1, 1, 1000, 10 ** 6]) if bigvol else 1)}
            ttl = r.choice(ttl_choices)
            if ttl is not None:
                op["ttl"] = ttl
            if cont:
                op["cont"] = True
            ops.append(op)
    ops.append({"k": "match_all"})
    ops.append({"k": "tick"})
    return {"format": 1, "driver": "B", "runner_seed": r.randrange(2 ** 31), "config": cfg, "ops": ops,
            "knobs": {"storage_chunk": None}, "taps": False}
