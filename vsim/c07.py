"""C07: reproducibility.  One scenario is executed several times -- in process under different states
of the interpreter-global generators, after an unrelated run, and in fresh interpreters under different
hash seeds -- and the SHA-256 digest of the whole observable outcome must be identical.
"""
import copy
import hashlib
import json
import os
import random
import subprocess
import sys
from typing import Any, Dict, List

from . import env, seeds
from .drivers import new_result, run_A
from .gen_a import World, fill_scripts, FCN_SETTINGS

import numpy as _np  # noqa: E402


def gen_kitchen(r: random.Random, profile: str = "kitchen") -> Dict[str, Any]:
    """every built-in agent, market and event type, correlated volatile fundamentals, scripted agents, probes."""
    w = World(r)
    n = r.randint(2, 3)
    sh = r.choice([100, 1000])
    stock = r.random() < 0.3
    for i in range(n):
        p0 = float(r.choice([300, 400]))
        w.cfg[f"M{i}"] = {"class": "Market" if stock else "TapMarket", "tickSize": r.choice([1.0, 0.1, 0.00001]),
                          "marketPrice": p0, "fundamentalVolatility": r.choice([0.001, 0.01]) if r.random() < 0.93 else r.choice([1e-16, 2e-16, 1e-300]),
                          "fundamentalDrift": r.choice([0.0, 0.0005]), "outstandingShares": sh}
        w.cfg["simulation"]["markets"].append(f"M{i}")
        w.markets.append({"name": f"M{i}", "tick": w.cfg[f"M{i}"]["tickSize"], "p0": p0, "index": False})
    comps = [f"M{i}" for i in range(n)]
    avg = sum(w.cfg[c]["marketPrice"] for c in comps) / n
    w.cfg["IDX"] = {"class": "IndexMarket" if stock else "TapIndexMarket", "tickSize": 1.0, "marketPrice": avg + r.choice([0, 2, -3]),
                    "markets": comps}
    w.cfg["simulation"]["markets"].append("IDX")
    w.markets.append({"name": "IDX", "tick": 1.0, "p0": avg, "index": True, "components": comps})
    pairs = []
    if n >= 2:
        pairs.append(["M0", "M1", r.choice([0.3, -0.4, 0.8])])
    if n >= 3 and r.random() < 0.5:
        pairs.append(["M1", "M2", r.choice([0.2, -0.2])])
    if n >= 3 and r.random() < 0.08:
        # an exactly singular (but positive semi-definite) structure: 0.6^2 + 0.8^2 = 1.  Refused today with a
        # linear-algebra error - and refused the same way in every execution
        pairs = [["M0", "M1", 0.6], ["M1", "M2", 0.8]]
        for i in range(3):
            w.cfg[f"M{i}"]["fundamentalVolatility"] = 0.01
        w.cfg["simulation"]["fundamentalCorrelations"] = {"pairwise": pairs}
    elif r.random() < 0.65:
        w.cfg["simulation"]["fundamentalCorrelations"] = {"pairwise": pairs}
    allm = comps + ["IDX"]
    w.add_scripted("SA", r.randint(1, 3), False)
    w.add_scripted("SH", (r.randint(0, 2) or 1) if profile != "crowd" else r.choice([2, 20, 70]), True)
    d = dict(FCN_SETTINGS)
    d.update({"numAgents": r.randint(2, 8) if profile != "crowd" else r.choice([70, 130, 260]), "markets": allm})
    w.add_group("FCN", d)
    d = dict(FCN_SETTINGS)
    d.update({"class": "MarketShareFCNAgent", "numAgents": r.randint(1, 4), "markets": comps})
    w.add_group("MSF", d)
    w.add_group("MM", {"class": "MarketMakerAgent", "numAgents": 1, "markets": ["M0"], "cashAmount": 100000, "assetVolume": 100,
                       "targetMarket": "M0", "netInterestSpread": [0.005, 0.02], "orderTimeLength": r.randint(1, 4)})
    w.add_group("ARB", {"class": "ArbitrageAgent", "numAgents": 1, "markets": allm, "cashAmount": 100000, "assetVolume": 100,
                        "orderVolume": 1, "orderThresholdPrice": 1.0, "orderTimeLength": 2})
    w.add_group("TST", {"class": "TestAgent", "numAgents": r.randint(1, 3), "markets": comps, "cashAmount": 100000, "assetVolume": 100})
    for i in range(r.randint(1, 3)):
        w.add_session(r.randint(4, 25), True, (i > 0) or r.random() < 0.6, max_normal=r.choice([3, 6, 20]),
                      max_hft=r.choice([1, 3]), rate=r.choice([1.0, 0.5]), legacy=r.random() < 0.3)
    if not any(s["withOrderExecution"] for s in w.sessions):
        w.sessions[-1]["withOrderExecution"] = True
    fill_scripts(r, w, p_empty=0.3, p_cancel=0.15, p_market=0.05, p_ttl=0.5, max_ops=3, rel_mode=0.7)
    # scripted agents draw from the interpreter-global generators during the run
    for name, turns in w.scripts.items():
        for t in turns:
            if r.random() < 0.3:
                t.insert(r.randrange(len(t) + 1), {"k": "noise"})
    s = w.sessions[-1]
    evs = []
    w.cfg["E_FS"] = {"class": "FundamentalPriceShock", "target": "M0", "triggerTime": r.randrange(0, s["iterationSteps"]),
                     "priceChangeRate": r.choice([-0.1, 0.05]), "shockTimeLength": r.randint(1, 2), "enabled": True}
    w.cfg["E_TH"] = {"class": "TradingHaltRule", "targetMarkets": ["M1"], "triggerChangeRate": 0.02, "haltingTimeLength": 3, "enabled": True}
    w.cfg["E_PL"] = {"class": "PriceLimitRule", "targetMarkets": allm if r.random() < 0.5 else ["M0"], "triggerChangeRate": 0.2, "enabled": True}
    w.cfg["E_OM"] = {"class": "OrderMistakeShock", "target": "M0", "triggerTime": r.randrange(0, s["iterationSteps"]),
                     "priceChangeRate": r.choice([-0.05, 0.05]), "orderVolume": 10, "orderTimeLength": 3, "enabled": True}
    for e in ("E_FS", "E_TH", "E_PL", "E_OM"):
        if r.random() < 0.8:
            evs.append(e)
    if r.random() < 0.6:
        w.cfg["PR0"] = {"class": "ProbeEvent"}
        w.probes["PR0"] = {"hooks": [{"kind": "order", "before": True, "times": None}, {"kind": "market", "before": False, "times": [1, 2, 3]}],
                           "alter": r.choice([None, {"f": 1.001}])}
        evs.append("PR0")
    r.shuffle(evs)
    s["events"] = evs
    w.knobs["storage_chunk"] = r.choice([None, 7])
    w.knobs["generation_chunk"] = r.choice([None, 5])
    scn = w.scenario()
    scn["env"] = {"hash_seeds": [0, 1, r.randrange(2, 10 ** 6)], "global_seeds": [[r.randrange(10 ** 6), r.randrange(10 ** 6)] for _ in range(2)]}
    scn["taps"] = not stock
    return scn


def outcome_digest(res: Dict[str, Any]) -> str:
    mon = res.get("_mon")
    h = hashlib.sha256()
    h.update(repr(mon.trace).encode())
    err = res.get("error")
    h.update(repr(None if err is None else (err["type"], err["msg"])).encode())
    if mon.sim is not None:
        for m in mon.markets:
            t = m.get_time()
            if t < 0:
                continue
            rng_ = range(t + 1)
            try:
                cols = (m.get_market_prices(rng_), m.get_mid_prices(rng_), m.get_last_executed_prices(rng_),
                        m.get_fundamental_prices(rng_), m.get_executed_volumes(rng_), m.get_executed_total_prices(rng_),
                        m.get_n_buy_orders(rng_), m.get_n_sell_orders(rng_))
            except Exception as e:  # noqa
                cols = ("unreadable", type(e).__name__)
            h.update(repr((m.name, cols)).encode())
        for a in mon.agents:
            params = sorted((k, v) for k, v in vars(a).items() if isinstance(v, (int, float, str, bool)) and not k.startswith("_"))
            h.update(repr((a.name, a.get_cash_amount(), sorted(a.asset_volumes.items()), params)).encode())
    return h.hexdigest()


def execute(scn: Dict[str, Any]) -> Dict[str, Any]:
    res = run_A(copy.deepcopy(scn), {"C07"}, [])
    mon = res["_mon"]
    out = {"digest": outcome_digest(res), "settings_unmodified": mon.ext.get("settings_unmodified", True),
           "n_events": mon.seq, "error": None if res["error"] is None else res["error"]["type"], "stats": res["stats"],
           "global_draws": getattr(mon, "_gd", 0)}
    return out


def subprocess_digest(scn: Dict[str, Any], hash_seed: int) -> str:
    e = dict(os.environ, PYTHONHASHSEED=str(hash_seed), VERIF_NO_REEXEC="1")
    p = subprocess.run([sys.executable, os.path.join(env.VERIF, "run_check.py"), "--digest"], input=json.dumps(scn),
                       capture_output=True, text=True, env=e, timeout=300)
    for line in p.stdout.splitlines():
        if line.startswith("DIGEST "):
            return line.split()[1]
    raise RuntimeError("digest subprocess failed: " + p.stderr[-500:])


def variants_of(scn: Dict[str, Any]) -> List[Dict[str, Any]]:
    out = []
    v = copy.deepcopy(scn)
    sim = v["config"]["simulation"]
    if "fundamentalCorrelations" in sim:
        del sim["fundamentalCorrelations"]
    else:
        names = [m for m in sim["markets"] if v["config"][m].get("fundamentalVolatility")]
        if len(names) >= 2:
            sim["fundamentalCorrelations"] = {"pairwise": [[names[0], names[1], 0.8]]}
    out.append(v)
    v = copy.deepcopy(scn)
    v["runner_seed"] = scn["runner_seed"] + 7
    for k, e in v["config"].items():
        if isinstance(e, dict) and "enabled" in e:
            e["enabled"] = not e["enabled"]
    out.append(v)
    return out


def run_c07(scn: Dict[str, Any], on, plugins=()) -> Dict[str, Any]:
    from .monitor import Monitor
    res = new_result()
    mon = Monitor(on, "A")
    envn = scn.get("env") or {}
    base = execute(scn)
    runs = {"baseline": base["digest"]}
    if not base["settings_unmodified"]:
        mon.viol("C07", "settings_modified", {})
    # (2) other states of the global generators
    for i, (a, b) in enumerate(envn.get("global_seeds", [[1, 2]])):
        random.seed(a)
        _np.random.seed(b)
        runs[f"global_seed_{i}"] = execute(scn)["digest"]
    # (3) after other runs in the same process: an unrelated scenario, and *variants of this one* (state leaking
    # between runs is usually keyed on identifiers, so near-identical configurations are the dangerous ones):
    # correlations toggled, another runner seed, events disabled
    other = gen_kitchen(seeds.rng("c07-unrelated", scn["runner_seed"]))
    execute(other)
    for variant in variants_of(scn):
        try:
            execute(variant)
        except Exception:
            pass
    runs["after_unrelated_run_and_variants"] = execute(scn)["digest"]
    # (3b) the same configuration handed over as the path of a JSON file (one path, rewritten between runs: first a
    # variant, then this scenario) and as a text stream: the outcome is a function of the configuration, whatever
    # its form
    for variant in variants_of(scn)[:1]:
        try:
            execute(dict(variant, settings_form="path"))
        except Exception:
            pass
    runs["settings_from_file_path"] = execute(dict(scn, settings_form="path"))["digest"]
    runs["settings_from_stream"] = execute(dict(scn, settings_form="stream"))["digest"]
    # (4) fresh interpreters under other hash seeds
    n_sub = int(scn.get("n_subprocess", 2))
    for hs in (envn.get("hash_seeds") or [0, 1])[:n_sub]:
        runs[f"fresh_interpreter_hashseed_{hs}"] = subprocess_digest(scn, hs)
    distinct = sorted(set(runs.values()))
    if len(distinct) != 1:
        mon.viol("C07", "outcome_differs_between_executions", {k: v[:16] for k, v in runs.items()})
    # the digest observes something: another seed gives another outcome
    scn2 = copy.deepcopy(scn)
    scn2["runner_seed"] = scn["runner_seed"] + 1
    if execute(scn2)["digest"] == base["digest"]:
        mon.viol("C07", "digest_insensitive_to_seed", {})
    mon.stats = dict(base["stats"])
    mon.stat("executions", len(runs) + 2)
    mon.probe("fresh_interpreter_runs", n_sub)
    mon.probe("global_generator_perturbations", len(envn.get("global_seeds", [])))
    mon.trace = [("digest", base["digest"])]
    mon.now = 0
    res["violations"] = [v.as_dict() for v in mon.violations]
    res["stats"] = dict(mon.stats)
    res["probes"] = dict(mon.probes)
    res["completed"] = True
    res["n_events"] = base["n_events"]
    res["_mon"] = mon
    return res


def digest_main() -> int:
    scn = json.load(sys.stdin)
    print("DIGEST", execute(scn)["digest"])
    return 0
