#!/venv/bin/python
"""Sensitivity runner: apply catalogue mutants (and seeded patches) to scratch copies under /tmp and
run the relevant quick checks against them.  Never touches /repo; scratch copies are removed.

  tools/mutants.py [--props C01,C02] [--ids m01a,...] [--tier quick] [--all-props]
"""
import json
import os
import shutil
import subprocess
import sys

VERIF = os.path.dirname(os.path.dirname(os.path.abspath(__file__)))
SCR = "/tmp/pams_mut"


def main(argv):
    import argparse
    ap = argparse.ArgumentParser()
    ap.add_argument("--props", default="")
    ap.add_argument("--ids", default="")
    ap.add_argument("--tier", default="quick")
    ap.add_argument("--scale", default="1.0")
    ap.add_argument("--check", default="", help="run this check id instead of the mutant's own property")
    ap.add_argument("--only-pass", action="store_true", help="only mutants that survive the repo test-suite")
    a = ap.parse_args(argv)
    cat = json.load(open(os.path.join(VERIF, "sensitivity", "catalogue.json")))["mutants"]
    props = set(filter(None, a.props.split(",")))
    ids = set(filter(None, a.ids.split(",")))
    rows = []
    for m in cat:
        if props and m["property"] not in props:
            continue
        if ids and m["id"] not in ids:
            continue
        if a.only_pass and m["suite"] != "PASS":
            continue
        d = os.path.join(SCR, m["id"])
        shutil.rmtree(d, ignore_errors=True)
        os.makedirs(d)
        shutil.copytree("/repo/pams", os.path.join(d, "pams"))
        fp = os.path.join(d, m["file"])
        src = open(fp).read()
        if src.count(m["find"]) != 1:
            rows.append((m["id"], m["property"], "N/A (find count %d)" % src.count(m["find"])))
            shutil.rmtree(d, ignore_errors=True)
            continue
        open(fp, "w").write(src.replace(m["find"], m["replace"]))
        out = os.path.join(d, "out")
        os.makedirs(out)
        env = dict(os.environ, VERIF_REPO=d, VERIF_OUT=out, VERIF_SCALE=a.scale)
        prop = a.check or m["property"]
        p = subprocess.run(["/venv/bin/python", os.path.join(VERIF, "run_check.py"), prop, a.tier],
                           env=env, capture_output=True, text=True, timeout=3600)
        lines = [l for l in p.stdout.splitlines() if l.startswith("VIOLATION") or l.startswith("#   kind")]
        kinds = [l.split()[1] for l in p.stdout.splitlines() if l.startswith("#   kind")]
        status = {0: "MISSED", 1: "CAUGHT", 2: "HARNESS-ERROR"}.get(p.returncode, f"rc={p.returncode}")
        # replay must reproduce in a fresh process
        rep = ""
        if p.returncode == 1:
            vl = [l for l in p.stdout.splitlines() if l.startswith("VIOLATION")]
            path = vl[0].split("replay=")[1]
            q = subprocess.run(["/venv/bin/python", os.path.join(VERIF, "run_check.py"), "--replay", path],
                               env=env, capture_output=True, text=True, timeout=600)
            rep = "replay-ok" if q.returncode == 1 and "identical=True" in q.stdout else f"replay-rc={q.returncode}"
        rows.append((m["id"], m["property"], m["suite"], status, ",".join(kinds)[:120], rep))
        if p.returncode == 2:
            print(p.stderr[-1500:])
        print(rows[-1], flush=True)
        shutil.rmtree(d, ignore_errors=True)
    shutil.rmtree(SCR, ignore_errors=True)
    return 0


if __name__ == "__main__":
    sys.exit(main(sys.argv[1:]))
