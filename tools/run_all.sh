#!/bin/bash
# run every check at a tier (default quick) and seed; prints one summary line per check
TIER=${1:-quick}
for c in C01 C02 C03 C04 C05 C06 C07 C08 C09 C10 C11 C12 C13 C14 C15 C16 C17 C18 C19 C20; do
  /venv/bin/python /verif/run_check.py $c $TIER 2>&1 | grep -E "^(VIOLATION|KNOWN-FINDING|HARNESS-ERROR|# C)" | cut -c1-400
done
