#!/venv/bin/python
"""Regenerates the table of DESIGN.md section 4a (batches, plug-ins, violation kinds per property) from
vsim/checks.py and the `viol("<id>", "<kind>"` calls in vsim/.  Usage: tools/table4a.py [--write]"""
import glob
import os
import re
import sys

HERE = os.path.dirname(os.path.dirname(os.path.abspath(__file__)))
sys.path.insert(0, HERE)
os.environ.setdefault("VERIF_NO_REEXEC", "1")

from vsim import env  # noqa: E402,F401
from vsim import checks  # noqa: E402


def kinds_by_prop():
    out = {}
    src = ""
    for f in sorted(glob.glob(os.path.join(HERE, "vsim", "*.py"))):
        src += open(f).read() + "\n"
    for m in re.finditer(r'viol\(\s*"(C\d\d)"\s*,\s*"([a-z0-9_]+)"', src):
        out.setdefault(m.group(1), set()).add(m.group(2))
    # kinds reported under a variable property id (shared monitor code): self.viol(prop, "kind" ...)
    shared = set(m.group(1) for m in re.finditer(r'viol\(\s*(?:prop|label|self\.label|p_|exp\.get\("property", "C18"\)|scn\["expect_setup_error"\]\.get\("property", "C18"\))\s*,\s*"([a-z0-9_]+)"', src))
    return out, shared


def main():
    reg = checks.registry()
    kinds, shared = kinds_by_prop()
    lines = ["| id | batches (driver) quick/thorough | oracle plug-ins | violation kinds |", "|---|---|---|---|"]
    for pid in sorted(reg):
        ck = reg[pid]
        b = "; ".join(f"{x.name} ({x.driver}) {x.quick:,}/{x.thorough:,}" for x in ck.batches)
        try:
            pl = ", ".join(type(p).__name__ for p in ck.plugins()) or "core monitor"
        except Exception:
            pl = "core monitor"
        ks = ", ".join(sorted(kinds.get(pid, set()))) or "-"
        lines.append(f"| {pid} | {b} | {pl} | {ks} |")
    lines.append("")
    lines.append("Kinds reported under whichever property's check is running (shared monitor code): "
                 + ", ".join(sorted(shared)) + ", `exception_<Type>_in_<function>`, `watchdog_<function>`.")
    table = "\n".join(lines)
    if "--write" in sys.argv:
        p = os.path.join(HERE, "DESIGN.md")
        s = open(p).read()
        a = s.index("| id | batches (driver) quick/thorough |")
        b_ = s.index("Deviations from the per-property plans of section 4, as built:")
        s = s[:a] + table + "\n\n" + s[b_:]
        open(p, "w").write(s)
        print("DESIGN.md section 4a rewritten")
    else:
        print(table)


if __name__ == "__main__":
    main()
