#!/venv/bin/python
"""Regenerates /verif/MANIFEST.json from the check registry (vsim/checks.py) and tools/manifest_texts.json."""
import json
import os
import sys

VERIF = os.path.dirname(os.path.dirname(os.path.abspath(__file__)))
sys.path.insert(0, VERIF)
os.environ.setdefault("VERIF_NO_REEXEC", "1")
from vsim import checks  # noqa: E402

texts = json.load(open(os.path.join(VERIF, "tools", "manifest_texts.json")))
reg = checks.registry()
props = [json.loads(l)["id"] for l in open(os.path.join(VERIF, "properties.jsonl"))]
out = {
    "version": 1,
    "setup_cmd": "/venv/bin/python -m compileall -q /verif/vsim /verif/run_check.py && /venv/bin/python /verif/run_check.py --selftest-import",
    "hooks": {
        "guard": "PAMS_VERIF",
        "enable": "no source hooks exist: every seam is a constructor argument, a class named in the config "
                  "(class_register) or a subclassable base; checks import pams from /repo's working tree "
                  "(VERIF_REPO) and set PAMS_VERIF=1 only for uniformity",
        "baseline_off_cmd": "cd /repo && /venv/bin/python -m pytest -q -p no:cacheprovider --timeout=900",
        "source_commits": [],
        "add_only": True,
    },
    "engines": [{
        "name": "vsim", "path": "/verif/vsim", "serves_properties": sorted(reg.keys()),
        "kind_free_text": "deterministic simulation with fault injection: the real pams runner, simulator, markets, "
                          "events and agents run in one process under seeded scenarios (schedules, outages, hostile "
                          "programs, rule events, knobs); online reference model + invariants; seeded search, "
                          "minimisation, replay files",
    }],
    "checks": [],
    "not_applicable": [],
    "notes": "All checks: /venv/bin/python /verif/run_check.py <id> <tier>; env VERIF_SEED, VERIF_JOBS (default 16), "
             "VERIF_REPO (default /repo). Exit 0 held / 1 violation (VIOLATION line + replay) / 2 harness error. "
             "Known findings: /verif/known_findings.json (read-only at run time).",
}
for pid in props:
    if pid in reg:
        t = texts.get(pid, {})
        out["checks"].append({
            "property_id": pid,
            "quick_cmd": f"/venv/bin/python /verif/run_check.py {pid} quick",
            "thorough_cmd": f"/venv/bin/python /verif/run_check.py {pid} thorough",
            "evidence_file": f"/verif/evidence/{pid}.json",
            "replay_cmd_template": "/venv/bin/python /verif/run_check.py --replay {path}",
            "engine": "vsim",
            "level_claimed": {"category": "exploration", "text": t.get("level", "seeded exploration of simulated runs; a clean batch is evidence, not proof"),
                              "design_ref": t.get("design_ref", f"DESIGN.md section 4, {pid}")},
            "level_note": t.get("note", "trusted base: CPython, the harness (vsim) and its reference model; sampling, not enumeration"),
            "technique": t.get("technique", "deterministic simulation with fault injection (seeded schedule/fault search, online reference model, replayable scenarios)"),
        })
    else:
        out["not_applicable"].append({"property_id": pid, "reason": texts.get(pid, {}).get("na", "check not built yet in this round (planned: DESIGN.md section 4)")})
json.dump(out, open(os.path.join(VERIF, "MANIFEST.json"), "w"), indent=1)
print("checks:", [c["property_id"] for c in out["checks"]], "n/a:", [c["property_id"] for c in out["not_applicable"]])
