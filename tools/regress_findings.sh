set -e
cd /repo
declare -A C=( [D1]=96779e3 [D2]=d3b6f96 [D3]=6965bfd [D4]=f569e31 [D5]=2f41f1a [D6]=5ef0dc7 [D7]=c1bb630 [D8]=4f082cb )
for d in D1 D2 D3 D4 D5 D6 D7 D8; do
  wt=/tmp/rv_$d
  git worktree remove --force $wt 2>/dev/null || true
  git worktree add -q $wt HEAD
  (cd $wt && git revert -n ${C[$d]} >/dev/null 2>&1 || echo "revert conflict $d")
  f=$(ls /verif/findings/$d-*.json)
  echo "== $d reverted ${C[$d]}:"; VERIF_REPO=$wt VERIF_OUT=$wt/out /venv/bin/python /verif/run_check.py --replay $f 2>&1 | grep -v "^WARNING" | head -2 | cut -c1-220
  echo "   on fixed tree:"; /venv/bin/python /verif/run_check.py --replay $f 2>&1 | grep -v "^WARNING" | head -1 | cut -c1-160
  git worktree remove --force $wt
done
