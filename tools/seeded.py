#!/venv/bin/python
"""Seeded-change bookkeeping.

  tools/seeded.py ingest <name> <worktree> <property>     save patch.diff + demo + meta skeleton under /verif/seeded/<name>/
  tools/seeded.py verify <name> [--checks C01,C02] [--tier quick] [--scale 1]
        fresh scratch worktree of /repo under /tmp: (1) demo passes without the patch, (2) patch applies, (3) the
        repository test-suite still passes, (4) demo fails with the patch, (5) the named checks are run against the
        patched tree (VERIF_REPO); results go to meta.json.  The scratch worktree is removed afterwards.
"""
import json
import os
import shutil
import subprocess
import sys

VERIF = os.path.dirname(os.path.dirname(os.path.abspath(__file__)))
PY = "/venv/bin/python"


def sh(cmd, cwd=None, env=None, timeout=3600):
    p = subprocess.run(cmd, shell=True, cwd=cwd, env=env, capture_output=True, text=True, timeout=timeout)
    return p.returncode, (p.stdout + p.stderr)


def ingest(name, wt, prop):
    d = os.path.join(VERIF, "seeded", name)
    os.makedirs(d, exist_ok=True)
    rc, diff = sh("git diff", cwd=wt)
    diff = "\n".join(l for l in diff.splitlines() if not l.startswith("WARNING conda")) + "\n"
    open(os.path.join(d, "patch.diff"), "w").write(diff)
    demos = [f for f in os.listdir(wt) if f.startswith("demo_") and f.endswith(".py")]
    for f in demos:
        shutil.copy(os.path.join(wt, f), os.path.join(d, f))
    meta = {"name": name, "property": prop, "origin_worktree": wt, "demo": demos[0] if demos else None, "needs": "", "origin": "independent sub-agent given only the property text", "verified": {}}
    json.dump(meta, open(os.path.join(d, "meta.json"), "w"), indent=1)
    print("ingested", d, "patch lines", len(diff.splitlines()), "demo", demos)


def verify(name, checks, tier, scale):
    d = os.path.join(VERIF, "seeded", name)
    meta = json.load(open(os.path.join(d, "meta.json")))
    wt = f"/tmp/seedchk_{name}"
    sh(f"git -C /repo worktree remove --force {wt}")
    shutil.rmtree(wt, ignore_errors=True)
    rc, out = sh(f"git -C /repo worktree add -q {wt} HEAD")
    assert os.path.isdir(wt), out
    v = {}
    try:
        demo = meta["demo"] if not os.environ.get("SEEDED_FAST") else None  # fast: check + replay only
        if demo:
            src = open(os.path.join(d, demo)).read()
            if meta.get("origin_worktree"):
                src = src.replace(meta["origin_worktree"], wt)  # demos assert where pams was imported from
            open(os.path.join(wt, demo), "w").write(src)
            rc, out = sh(f"{PY} {demo}", cwd=wt)
            v["demo_without_patch"] = {"rc": rc, "tail": out.strip().splitlines()[-1:] }
        rc, out = sh(f"git apply {os.path.join(d, 'patch.diff')}", cwd=wt)
        v["patch_applies"] = rc == 0
        if rc != 0:
            print(out)
        if not os.environ.get("SEEDED_FAST"):
            rc, out = sh(f"{PY} -m pytest -q -p no:cacheprovider --timeout=900 --deselect tests/samples/test_all.py::test_all", cwd=wt)
            v["suite_with_patch"] = [l for l in out.strip().splitlines() if "passed" in l or "failed" in l][-1:]
        if demo:
            rc, out = sh(f"{PY} {demo}", cwd=wt)
            v["demo_with_patch"] = {"rc": rc, "tail": out.strip().splitlines()[-1:]}
        v["checks"] = {}
        for c in checks:
            outdir = os.path.join(wt, "verif_out")
            env = dict(os.environ, VERIF_REPO=wt, VERIF_OUT=outdir, VERIF_SCALE=str(scale))
            rc, out = sh(f"{PY} {VERIF}/run_check.py {c} {tier}", env=env)
            kinds = [l.split()[1] for l in out.splitlines() if l.startswith("#   kind")]
            rep = None
            if rc == 1:
                path = [l for l in out.splitlines() if l.startswith("VIOLATION")][0].split("replay=")[1]
                rc2, out2 = sh(f"{PY} {VERIF}/run_check.py --replay {path}", env=env)
                rep = (rc2 == 1 and "identical=True" in out2)
            v["checks"][c] = {"exit": rc, "kinds": kinds, "replay_reproduces": rep, "tier": tier, "scale": scale}
            print(name, c, "exit", rc, kinds, "replay", rep, flush=True)
    finally:
        sh(f"git -C /repo worktree remove --force {wt}")
        shutil.rmtree(wt, ignore_errors=True)
    prev = dict(meta.get("verified", {}).get("checks", {}))
    prev.update(v.get("checks", {}))
    meta.setdefault("verified", {}).update(v)
    meta["verified"]["checks"] = prev  # results for other checks are kept
    json.dump(meta, open(os.path.join(d, "meta.json"), "w"), indent=1)
    print(json.dumps({k: v[k] for k in v if k != "checks"}, indent=None))


def verify_all(only=None):
    import glob
    rows = []
    for d in sorted(glob.glob(os.path.join(VERIF, "seeded", "*", "meta.json"))):
        m = json.load(open(d))
        if only and not m["name"].startswith(tuple(only)):
            continue
        with_ = m.get("catch_with") or [m["property"]]  # the check of another property, where that is the one that sees it
        verify(m["name"], with_, "quick", 1.0)
        m = json.load(open(d))
        c = m["verified"]["checks"][with_[0]]
        rows.append((m["name"], m["property"] + ("" if with_[0] == m["property"] else f" (by {with_[0]})"), c["exit"], ",".join(k.replace("kind=", "") for k in c["kinds"][:3]), c["replay_reproduces"]))
        with open(os.path.join(VERIF, "seeded", "RESULTS.md"), "w") as f:
            f.write("# Seeded changes vs. the quick checks (tools/seeded.py verify-all)\n\n| change | property | check exit | violation kinds | replay reproduces |\n|---|---|---|---|---|\n")
            for r in rows:
                f.write("| " + " | ".join(str(x) for x in r) + " |\n")
    missed = [r for r in rows if r[2] != 1]
    print("verified", len(rows), "missed", [r[0] for r in missed])


if __name__ == "__main__":
    a = sys.argv[1:]
    if a and a[0] == "verify-all":
        verify_all(a[1:] or None)
        sys.exit(0)
    if a[0] == "ingest":
        ingest(a[1], a[2], a[3])
    elif a[0] == "verify":
        checks = []
        tier = "quick"
        scale = 1.0
        for i, x in enumerate(a):
            if x == "--checks":
                checks = a[i + 1].split(",")
            if x == "--tier":
                tier = a[i + 1]
            if x == "--scale":
                scale = float(a[i + 1])
        verify(a[1], checks, tier, scale)
