#!/venv/bin/python
"""Which lines of pams do the checks' scenarios execute?  Runs a few hundred scenarios of every batch in
one process under coverage.py (if installed) and prints the lines of /repo/pams never executed."""
import os
import sys

VERIF = os.path.dirname(os.path.dirname(os.path.abspath(__file__)))
sys.path.insert(0, VERIF)
os.environ["VERIF_NO_REEXEC"] = "1"
import coverage  # noqa: E402

cov = coverage.Coverage(source=[os.path.join(os.environ.get("VERIF_REPO", "/repo"), "pams")], branch=True)
cov.start()
from vsim import checks, engine  # noqa: E402

reg = checks.registry()
n = int(sys.argv[1]) if len(sys.argv) > 1 else 60
for pid, chk in sorted(reg.items()):
    for b in chk.batches:
        k = n if b.name not in ("A-clock", "A-kitchen", "F-moments") else max(2, n // 15)
        if b.name == "A-kitchen":
            from vsim import c07
            for i in range(k):
                c07.execute(engine.scenario_for(chk, b, 0, i))
            continue
        for i in range(k):
            scn = engine.scenario_for(chk, b, 0, i)
            engine.run_guarded(chk, scn, b.budget_s, b.run)
cov.stop()
cov.report(show_missing=True, skip_covered=False)
