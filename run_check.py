#!/venv/bin/python
"""CLI of the pams deterministic-simulation checks.

  run_check.py <property-id> [quick|thorough]
  run_check.py --replay <file>
  run_check.py --selftest-determinism [n]
Environment: VERIF_SEED (int, default 0), VERIF_TIER, VERIF_JOBS (default 16), VERIF_REPO (default /repo).
Exit: 0 held on everything explored; 1 violation (VIOLATION line printed); 2 harness error.
"""
import os
import sys

HERE = os.path.dirname(os.path.abspath(__file__))
sys.path.insert(0, HERE)

if os.environ.get("PYTHONHASHSEED") != "0" and os.environ.get("VERIF_NO_REEXEC") != "1":
    os.environ["PYTHONHASHSEED"] = "0"
    os.execv(sys.executable, [sys.executable] + sys.argv)


def main(argv):
    from vsim import env  # noqa: F401  (imports pams from VERIF_REPO and asserts the location)
    from vsim import checks, engine
    reg = checks.registry()
    if len(argv) >= 2 and argv[0] == "--replay":
        return engine.replay_file(argv[1], reg)
    if argv and argv[0] == "--digest":
        from vsim import c07
        return c07.digest_main()
    if argv and argv[0] == "--selftest-import":
        print("pams imported from", env.assert_repo())
        return 0
    if argv and argv[0] == "--selftest-determinism":
        from vsim import selftest
        return selftest.main(argv[1:])
    if not argv:
        print(__doc__)
        return 2
    prop = argv[0]
    tier = argv[1] if len(argv) > 1 else os.environ.get("VERIF_TIER", "quick")
    seed = int(os.environ.get("VERIF_SEED", "0"))
    jobs = int(os.environ.get("VERIF_JOBS", "16"))
    if prop not in reg:
        print(f"unknown property {prop}", file=sys.stderr)
        return 2
    return engine.execute_check(reg[prop], tier, seed, jobs)


if __name__ == "__main__":
    try:
        rc = main(sys.argv[1:])
    except SystemExit:
        raise
    except BaseException as e:  # a tree that does not import, a crash of the harness: never exit 0 or 1
        import traceback
        traceback.print_exc()
        print(f"HARNESS-ERROR {type(e).__name__}: {e}", file=sys.stderr)
        rc = 2
    sys.exit(rc)
